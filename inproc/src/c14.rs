//! C14 — printed function definitions re-parse to the same function (parse → print → parse → print).

use crate::{announce, guarded};
use bvcommon::runner::{explore_par, replay_case, Ctx, Layer, LayerReport, Verdict};
use proptest::prelude::*;
use serde::{Deserialize, Serialize};
use serde_json::Value;

#[derive(Clone, Debug, Serialize, Deserialize)]
pub struct Case {
    /// source of the function body (a list of commands, newline separated)
    pub body: String,
}

fn is_span(m: &serde_json::Map<String, Value>) -> bool {
    m.len() == 2 && m.get("start").map(|s| s.get("index").is_some()).unwrap_or(false) && m.get("end").map(|s| s.get("index").is_some()).unwrap_or(false)
}

/// erase source locations; `{"Fd": n}` and `{"Duplicate": "n"}` are the same redirect target
pub fn erase_loc(v: &mut Value) {
    match v {
        Value::Object(m) => {
            if is_span(m) {
                *v = Value::Null;
                return;
            }
            if m.len() == 1 {
                if let Some(Value::Number(n)) = m.get("Fd") {
                    let n = n.to_string();
                    *v = serde_json::json!({"Duplicate": {"value": n}});
                    return;
                }
            }
            m.retain(|k, _| k != "loc" && k != "location");
            // a simple command without a command word: redirects mean the same before or after
            // the assignments (`x=1 |& c` is printed as `x=1 2>&1 | c`)
            if m.contains_key("prefix") && !m.contains_key("word_or_name") || matches!(m.get("word_or_name"), Some(Value::Null)) {
                let mut moved = vec![];
                if let Some(Value::Array(suf)) = m.get_mut("suffix") {
                    let (red, rest): (Vec<Value>, Vec<Value>) = suf.drain(..).partition(|x| x.get("IoRedirect").is_some());
                    *suf = rest;
                    moved = red;
                }
                if matches!(m.get("suffix"), Some(Value::Array(a)) if a.is_empty()) {
                    m.remove("suffix");
                }
                if !moved.is_empty() {
                    if let Some(Value::Array(pre)) = m.get_mut("prefix") {
                        pre.extend(moved);
                    }
                }
            }
            for (_, x) in m.iter_mut() {
                erase_loc(x);
            }
        }
        Value::Array(a) => {
            for x in a.iter_mut() {
                erase_loc(x);
            }
        }
        _ => {}
    }
}

pub struct RoundTrip {
    pub name: &'static str,
}

pub fn source_of(body: &str) -> String {
    format!("f() {{\n{body}\n}}\n")
}

/// the parse-print-parse-print relation on any source text that parses
pub fn check_text(src: &str) -> Result<Option<String>, String> {
    let shell = crate::shell::fresh();
    let d0 = match shell.parse_string(src.to_string()) {
        Ok(p) => p,
        Err(_) => return Ok(None),
    };
    let t1 = d0.to_string();
    let d1 = match shell.parse_string(t1.clone()) {
        Ok(p) => p,
        Err(e) => return Err(format!("printed form does not parse again ({e}):\n--- printed ---\n{t1}")),
    };
    let mut j0 = serde_json::to_value(&d0).map_err(|e| e.to_string())?;
    let mut j1 = serde_json::to_value(&d1).map_err(|e| e.to_string())?;
    erase_loc(&mut j0);
    erase_loc(&mut j1);
    if j0 != j1 {
        let a = serde_json::to_string(&j0).unwrap_or_default();
        let b = serde_json::to_string(&j1).unwrap_or_default();
        let n = a.bytes().zip(b.bytes()).take_while(|(x, y)| x == y).count();
        let lo = n.saturating_sub(80);
        return Err(format!(
            "re-parsed AST differs from the original (locations erased) near: …{}… vs …{}…\n--- printed ---\n{t1}",
            &a[lo..(n + 80).min(a.len())],
            &b[lo..(n + 80).min(b.len())]
        ));
    }
    let t2 = d1.to_string();
    if t2 != t1 {
        return Err(format!("printing is not a fixed point:\n--- first print ---\n{t1}\n--- second print ---\n{t2}"));
    }
    Ok(Some(t1))
}

impl Layer for RoundTrip {
    type Case = Case;
    fn name(&self) -> String {
        self.name.into()
    }
    fn render(&self, c: &Case) -> String {
        source_of(&c.body)
    }
    fn classes(&self, c: &Case) -> Vec<String> {
        classes_of(&c.body)
    }
    fn shrink_candidates(&self, c: &Case) -> Vec<Case> {
        // drop one line at a time; drop one redirect-looking token at a time
        let lines: Vec<&str> = c.body.lines().collect();
        let mut out = vec![];
        for i in 0..lines.len() {
            let mut l = lines.clone();
            l.remove(i);
            if !l.is_empty() {
                out.push(Case { body: l.join("\n") });
            }
        }
        let toks: Vec<&str> = c.body.split(' ').collect();
        for i in 0..toks.len() {
            let mut t = toks.clone();
            t.remove(i);
            out.push(Case { body: t.join(" ") });
        }
        out.sort_by_key(|c| c.body.len());
        out
    }
    fn eval(&self, c: &Case) -> Verdict {
        announce(self.name, &serde_json::to_string(c).unwrap());
        let c = c.clone();
        guarded(move || {
            let src = source_of(&c.body);
            let mut labels = vec![];
            for (needle, label) in [
                ("<<", "heredoc"),
                (">", "redirect"),
                ("<(", "procsubst"),
                ("case ", "case"),
                ("[[", "exttest"),
                ("((", "arith"),
                ("coproc", "coproc"),
                ("time ", "time"),
                ("! ", "bang"),
                ("|&", "pipe-amp"),
                ("function ", "function-kw"),
                ("() {", "nested-function"),
                ("for ((", "arith-for"),
                ("select ", "select"),
                (" &\n", "background"),
            ] {
                if src.contains(needle) {
                    labels.push(label.to_string());
                }
            }
            let compounds = ["if ", "while ", "until ", "for ", "case ", "{ ", "( "].iter().filter(|k| c.body.contains(**k)).count();
            let nontrivial = c.body.contains('>') || c.body.contains('<') || compounds >= 2;
            match check_text(&src) {
                Ok(Some(t1)) => {
                    let mut v = Verdict::pass(nontrivial).with_labels(labels);
                    v.sample = Some(serde_json::json!({"printed": bvcommon::exec::trunc(&t1, 400)}));
                    v
                }
                Ok(None) => Verdict::skip("generated source does not parse"),
                Err(e) => Verdict::fail(e).with_labels(labels),
            }
        })
    }
}

pub fn classes_of(body: &str) -> Vec<String> {
    let mut v = vec![];
    if body.replace("<<<", "").contains("<<") {
        v.push("heredoc_in_function_body".to_string());
    }
    let lines: Vec<&str> = body.lines().collect();
    if lines.windows(2).any(|w| w[0].ends_with('(') && !w[0].ends_with("((") && w[1].starts_with('(')) {
        v.push("subshell_starting_with_subshell".to_string());
    }
    v
}

// ---- generator of function bodies ---------------------------------------------------------------

fn word() -> BoxedStrategy<String> {
    proptest::sample::select(vec![
        "a", "b", "\"c d\"", "'e f'", "$x", "\"$x\"", "${x:-d}", "$(t 1 0)", "`t 2 0`", "$((1+2))", "*.txt", "~", "-n", "x=y", "a\\ b", "$'q\\n'", "{a,b}", "\"${a[@]}\"", "${#x}", "?", "[ab]",
    ])
    .prop_map(String::from)
    .boxed()
}

fn redirect() -> BoxedStrategy<String> {
    prop_oneof![
        8 => proptest::sample::select(vec![
            ">f", ">>f", "<f", "2>&1", ">&2", "2>/dev/null", "&>f", "&>>f", "<>f", ">|f", "3<&-", "3>&1", "4>&-", "<<<w", "<<<\"$x y\"", "2>>f", "0<f", "1>f", ">\"f g\"", ">$x", "5<>f",
            "< <(t 3 0)", "> >(cat)", "2> >(cat)",
        ])
        .prop_map(String::from),
        // every operator with an explicit descriptor number in front
        4 => (
            proptest::sample::select(vec!["0", "1", "2", "3", "9", "12"]),
            proptest::sample::select(vec![">f", ">>f", "<f", "<>f", ">|f", "<<<w", "<<<\"$x y\"", "<<< $x", ">&2", "<&0", ">&-", "<&-", ">&$x", "< <(t 3 0)", "> >(cat)"]),
        )
            .prop_map(|(fd, op)| format!("{fd}{op}")),
    ]
    .boxed()
}

fn redirs(max: usize) -> BoxedStrategy<String> {
    proptest::collection::vec(redirect(), 0..=max).prop_map(|v| if v.is_empty() { String::new() } else { format!(" {}", v.join(" ")) }).boxed()
}

fn heredoc() -> BoxedStrategy<String> {
    (
        proptest::sample::select(vec!["<<", "<<-", "<<", "3<<", "0<<-"]),
        proptest::sample::select(vec!["EOF", "'EOF'", "\"EOF\"", "\\EOF", "E"]),
        proptest::collection::vec(proptest::sample::select(vec!["line $x", "\tindented", "$(echo c)", "back\\slash", "\"quoted\"", "", "EOFx", " EOF", "$((1+1))", "`echo d`"]), 0..=3),
    )
        .prop_map(|(op, tag, lines)| {
            let bare = tag.trim_matches(|c| c == '\'' || c == '"' || c == '\\');
            let mut s = format!("cat {op}{tag}\n");
            for l in lines {
                s.push_str(l);
                s.push('\n');
            }
            s.push_str(bare);
            s
        })
        .boxed()
}

fn simple() -> BoxedStrategy<String> {
    prop_oneof![
        6 => (proptest::sample::select(vec!["t 1 0", "echo", "printf", "cmd", ":", "true"]), proptest::collection::vec(word(), 0..=3), redirs(3))
            .prop_map(|(c, w, r)| format!("{c}{}{}{r}", if w.is_empty() { "" } else { " " }, w.join(" "))),
        2 => (proptest::sample::select(vec!["x=1", "x=", "y=\"a b\"", "a=(1 2 3)", "a[1]=v", "x+=2", "a+=(4)", "x=$(t 4 0)", "declare -i n=3", "local l=1", "export E=v", "readonly R"]), proptest::option::of(word()))
            .prop_map(|(a, c)| match c { Some(c) => format!("{a} {c}"), None => a.to_string() }),
        1 => proptest::bool::weighted(0.25).prop_flat_map(|h| if h { heredoc() } else { Just("t 5 0".to_string()).boxed() }),
        1 => proptest::sample::select(vec!["return 3", "break", "continue 2", "exit 0", "shift", "wait", "trap 'echo x' EXIT", "set -e", "eval 'echo q'", ". ./file", "[ -n \"$x\" ]", "test a = b"]).prop_map(String::from),
    ]
    .boxed()
}

fn cond_expr() -> BoxedStrategy<String> {
    proptest::sample::select(vec![
        "-n $x", "-z \"$x\"", "$x == a*", "$x != b", "$x =~ ^a.*b$", "a < b", "a > b", "-f f && -d d", "-e f || ! -r g", "( -n a )", "$x -eq 3", "$x -lt $y", "! -n $x", "f -nt g", "-v x", "$x == \"quoted*\"",
        "$x =~ (a|b)+", "a = b",
    ])
    .prop_map(String::from)
    .boxed()
}

fn arith_expr() -> BoxedStrategy<String> {
    proptest::sample::select(vec!["x++", "x = 1 + 2", "x > 3 && y < 4", "a[1] += 2", "x <<= 1", "i < 10", "x ? y : z", "1", "x , y", "(x + 1) * 2", "!x", "x ** 2"]).prop_map(String::from).boxed()
}

fn join_list(v: Vec<String>) -> String {
    v.join("\n")
}

pub fn command(depth: u32) -> BoxedStrategy<String> {
    let leaf = simple();
    leaf.prop_recursive(depth, 24, 3, |inner| {
        let list = proptest::collection::vec(inner.clone(), 1..=3).prop_map(join_list);
        prop_oneof![
            3 => (list.clone(), list.clone(), proptest::option::of((list.clone(), list.clone())), proptest::option::of(list.clone()), redirs(2)).prop_map(|(c, t, elif, els, r)| {
                let mut s = format!("if {c}\nthen\n{t}\n");
                if let Some((ec, et)) = elif {
                    s.push_str(&format!("elif {ec}\nthen\n{et}\n"));
                }
                if let Some(e) = els {
                    s.push_str(&format!("else\n{e}\n"));
                }
                format!("{s}fi{r}")
            }),
            2 => (any::<bool>(), list.clone(), list.clone(), redirs(2)).prop_map(|(u, c, b, r)| format!("{} {c}\ndo\n{b}\ndone{r}", if u { "until" } else { "while" })),
            2 => (proptest::option::of(proptest::collection::vec(word(), 0..=3)), list.clone(), redirs(2)).prop_map(|(w, b, r)| match w {
                Some(w) => format!("for v in {}\ndo\n{b}\ndone{r}", w.join(" ")),
                None => format!("for v\ndo\n{b}\ndone{r}"),
            }),
            1 => (arith_expr(), arith_expr(), arith_expr(), list.clone(), redirs(1)).prop_map(|(a, b, c, l, r)| format!("for (({a}; {b}; {c}))\ndo\n{l}\ndone{r}")),
            3 => (
                word(),
                proptest::collection::vec(
                    (
                        proptest::collection::vec(proptest::sample::select(vec!["a", "b*", "?", "[ab]c", "\"q r\"", "*", "$x", "@(a|b)", "'lit'"]), 1..=2),
                        proptest::option::of(list.clone()),
                        proptest::sample::select(vec![";;", ";&", ";;&"]),
                        any::<bool>(),
                    ),
                    0..=3,
                ),
                redirs(1),
            )
                .prop_map(|(w, items, r)| {
                    let mut s = format!("case {w} in\n");
                    for (p, b, t, paren) in items {
                        s.push_str(&format!("{}{})\n{}\n{t}\n", if paren { "(" } else { "" }, p.join("|"), b.unwrap_or_default()));
                    }
                    format!("{s}esac{r}")
                }),
            2 => (list.clone(), redirs(2)).prop_map(|(l, r)| format!("{{\n{l}\n}}{r}")),
            2 => (list.clone(), redirs(2)).prop_map(|(l, r)| format!("(\n{l}\n){r}")),
            2 => (cond_expr(), redirs(1)).prop_map(|(e, r)| format!("[[ {e} ]]{r}")),
            2 => (arith_expr(), redirs(1)).prop_map(|(e, r)| format!("(( {e} )){r}")),
            2 => (proptest::sample::select(vec!["g", "h_2", "i"]), list.clone(), any::<bool>(), redirs(1)).prop_map(|(n, l, kw, r)| if kw { format!("function {n} {{\n{l}\n}}{r}") } else { format!("{n}() {{\n{l}\n}}{r}") }),
            // (brush rejects a coproc body that starts with a subshell; kept out of the domain: the
            // property covers functions the shell accepts)
            1 => (proptest::option::of(proptest::sample::select(vec!["CP", "co2"])), list.clone().prop_map(|l| if l.starts_with('(') { format!(":\n{l}") } else { l })).prop_map(|(n, l)| match n {
                Some(n) => format!("coproc {n} {{\n{l}\n}}"),
                None => format!("coproc {{\n{l}\n}}"),
            }),
            3 => (proptest::sample::select(vec!["", "! ", "time ", "time -p "]), proptest::collection::vec(inner.clone(), 2..=3), any::<bool>()).prop_map(|(pre, st, amp)| {
                // pipelines: stages must not end in a here-document (the `|` would follow the tag line)
                let st: Vec<String> = st
                    .into_iter()
                    .enumerate()
                    .map(|(i, s)| {
                        let bad = (s.contains("<<") && !s.contains("<<<")) || s.starts_with("coproc") || s.ends_with(" &") || (i > 0 && (s.starts_with('!') || s.starts_with("time")));
                        if bad { "t 9 0".to_string() } else { s }
                    })
                    .collect();
                let pre = if st[0].starts_with('!') || st[0].starts_with("time") { "" } else { pre };
                format!("{pre}{}", st.join(if amp { " |& " } else { " | " }))
            }),
            1 => (proptest::sample::select(vec!["! ", "time ", "time -p "]), inner.clone()).prop_map(|(pre, s)| {
                if (s.contains("<<") && !s.contains("<<<")) || s.starts_with('!') || s.starts_with("time") || s.starts_with("coproc") || s.ends_with(" &") {
                    format!("{pre}t 8 0")
                } else {
                    format!("{pre}{s}")
                }
            }),
            3 => (inner.clone(), proptest::collection::vec((any::<bool>(), inner.clone()), 1..=2)).prop_map(|(f, rest)| {
                let fix = |s: String| if (s.contains("<<") && !s.contains("<<<")) || s.starts_with("coproc") || s.ends_with(" &") { "t 7 0".to_string() } else { s };
                let mut s = fix(f);
                for (and, r) in rest {
                    s.push_str(if and { " && " } else { " || " });
                    s.push_str(&fix(r));
                }
                s
            }),
            1 => inner.clone().prop_map(|s| if (s.contains("<<") && !s.contains("<<<")) || s.ends_with(" &") { s } else { format!("{s} &") }),
        ]
    })
    .boxed()
}

pub fn bodies(depth: u32) -> BoxedStrategy<Case> {
    proptest::collection::vec(command(depth), 1..=4).prop_map(|v| Case { body: v.join("\n") }).boxed()
}

pub fn run(ctx: &Ctx) -> Vec<LayerReport> {
    let n = ctx.tier.pick(30_000, 600_000);
    let d = ctx.tier.pick(3, 4);
    vec![explore_par(&RoundTrip { name: "roundtrip" }, || bodies(d), n, ctx)]
}

pub fn replay(layer: &str, case: &serde_json::Value) -> Result<(String, Verdict), String> {
    match layer {
        "roundtrip" => replay_case(&RoundTrip { name: "roundtrip" }, case),
        _ => Err(format!("C14: unknown in-process layer {layer}")),
    }
}

//! bvinproc — in-process property checks against the /repo crates.
//!
//!   bvinproc <ID> quick|thorough <seed>        prints a JSON array of LayerReports on stdout
//!   bvinproc <ID> --replay <layer> <file>      file holds the JSON case; prints {"rendered","outcome","detail","sample"}
//!
//! Every case is announced (written to $BVERIF_ANNOUNCE/<thread>.json) before it is evaluated,
//! so that the engine can attribute an abort or stack overflow of this process to a case.

mod c01;
mod c07;
mod c08;
mod c14;
mod c15;
mod c19;
mod c20;
mod shell;

use bvcommon::runner::{Ctx, LayerReport, Outcome, Tier, Verdict};
use std::io::Write;

pub fn announce(layer: &str, case_json: &str) {
    if let Some(dir) = std::env::var_os("BVERIF_ANNOUNCE") {
        let tid = rayon::current_thread_index().unwrap_or(999);
        let p = std::path::Path::new(&dir).join(format!("{tid}.json"));
        let _ = std::fs::write(p, format!("{{\"layer\":{},\"case\":{}}}", serde_json::to_string(layer).unwrap(), case_json));
    }
}

/// run `f` catching panics; a panic becomes Fail with the panic message
pub fn guarded<F: FnOnce() -> Verdict + std::panic::UnwindSafe>(f: F) -> Verdict {
    match std::panic::catch_unwind(f) {
        Ok(v) => v,
        Err(e) => {
            let msg = if let Some(s) = e.downcast_ref::<String>() {
                s.clone()
            } else if let Some(s) = e.downcast_ref::<&str>() {
                s.to_string()
            } else {
                "panic".to_string()
            };
            let loc = LAST_PANIC.with(|l| l.borrow().clone());
            Verdict::fail(format!("panicked: {msg} @ {loc}"))
        }
    }
}

thread_local! {
    pub static LAST_PANIC: std::cell::RefCell<String> = const { std::cell::RefCell::new(String::new()) };
}

fn skip_hashes() -> Vec<u64> {
    std::env::var("BVERIF_SKIP_HASHES").ok().map(|s| s.split(',').filter_map(|x| x.parse().ok()).collect()).unwrap_or_default()
}

pub fn is_skipped(rendered: &str) -> bool {
    let h = bvcommon::runner::hash_str(rendered);
    SKIP.get_or_init(skip_hashes).contains(&h)
}
static SKIP: std::sync::OnceLock<Vec<u64>> = std::sync::OnceLock::new();

fn run_prop(prop: &str, ctx: &Ctx) -> Vec<LayerReport> {
    match prop {
        "C01" => c01::run(ctx),
        "C07" => c07::run(ctx),
        "C08" => c08::run(ctx),
        "C14" => c14::run(ctx),
        "C15" => c15::run(ctx),
        "C19" => c19::run(ctx),
        "C20" => c20::run(ctx),
        _ => {
            eprintln!("bvinproc: unknown property {prop}");
            std::process::exit(2);
        }
    }
}

fn replay(prop: &str, layer: &str, case: &serde_json::Value) -> Result<(String, Verdict), String> {
    match prop {
        "C01" => c01::replay(layer, case),
        "C07" => c07::replay(layer, case),
        "C08" => c08::replay(layer, case),
        "C14" => c14::replay(layer, case),
        "C15" => c15::replay(layer, case),
        "C19" => c19::replay(layer, case),
        "C20" => c20::replay(layer, case),
        _ => Err(format!("bvinproc: no replay for {prop}")),
    }
}

fn main() {
    let args: Vec<String> = std::env::args().collect();
    if args.len() < 4 {
        eprintln!("usage: bvinproc <ID> quick|thorough <seed> | bvinproc <ID> --replay <layer> <file>");
        std::process::exit(2);
    }
    std::panic::set_hook(Box::new(|info| {
        let loc = info.location().map(|l| format!("{}:{}", l.file(), l.line())).unwrap_or_default();
        LAST_PANIC.with(|l| *l.borrow_mut() = loc);
    }));
    let threads = std::env::var("BVERIF_THREADS").ok().and_then(|s| s.parse().ok()).unwrap_or(16usize);
    rayon::ThreadPoolBuilder::new().num_threads(threads).stack_size(8 << 20).build_global().ok();
    let prop = args[1].clone();
    if args[2] == "--replay" {
        let layer = args[3].clone();
        let text = std::fs::read_to_string(&args[4]).unwrap_or_else(|e| {
            eprintln!("cannot read case: {e}");
            std::process::exit(2)
        });
        let case: serde_json::Value = serde_json::from_str(&text).unwrap_or_else(|e| {
            eprintln!("bad case json: {e}");
            std::process::exit(2)
        });
        // run on a thread with the same stack size as the exploration workers
        let r = std::thread::Builder::new()
            .stack_size(8 << 20)
            .spawn(move || replay(&prop, &layer, &case))
            .unwrap()
            .join()
            .unwrap_or_else(|_| Err("replay thread panicked".into()));
        match r {
            Ok((rendered, v)) => {
                let (o, d) = match &v.outcome {
                    Outcome::Pass => ("pass", String::new()),
                    Outcome::Fail(d) => ("fail", d.clone()),
                    Outcome::Skip(d) => ("skip", d.clone()),
                    Outcome::Inconclusive(d) => ("inconclusive", d.clone()),
                };
                println!("{}", serde_json::json!({"rendered": rendered, "outcome": o, "detail": d, "sample": v.sample}));
            }
            Err(e) => {
                eprintln!("{e}");
                std::process::exit(2);
            }
        }
        return;
    }
    let tier = if args[2] == "thorough" { Tier::Thorough } else { Tier::Quick };
    let seed: u64 = args[3].parse().unwrap_or(1);
    let mut ctx = Ctx::new(&prop, tier, seed);
    if let Ok(c) = std::env::var("BVERIF_ACTIVE_CLASSES") {
        for x in c.split(',').filter(|x| !x.is_empty()) {
            ctx.active_classes.insert(x.to_string());
        }
    }
    let reports = run_prop(&prop, &ctx);
    let out = std::io::stdout();
    let mut o = out.lock();
    let _ = writeln!(o, "{}", serde_json::to_string(&reports).unwrap());
}

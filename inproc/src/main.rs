fn main() {}

//! C07 — arithmetic: brush's parser+evaluator vs the reference evaluator (in process).

use crate::{announce, guarded};
use bvcommon::arith::{self, ArithErr, Evaluator, A};
use bvcommon::runner::{explore_par, replay_case, Ctx, Layer, LayerReport, Verdict};
use serde::{Deserialize, Serialize};

#[derive(Clone, Debug, Serialize, Deserialize)]
pub struct Case {
    pub e: A,
}

pub struct Eval;

fn bash_eval(text: &str) -> Option<String> {
    // prints "<value>|x=..|y=..…" or "ERR"
    let script = format!(
        "{}if r=$(( {} )) 2>/dev/null; then :; fi\n",
        arith::STD_ENV_SH,
        text
    );
    let _ = script;
    let script = format!(
        "{env}r=$(( {text} )) 2>/dev/null || {{ echo ERR; exit; }}\necho \"$r|$x|$y|$z|$e|$i|${{u-unset}}|${{a[0]}}|${{a[1]}}|${{a[2]}}|${{a[3]-unset}}\"\n",
        env = arith::STD_ENV_SH
    );
    let mut cmd = std::process::Command::new("/usr/bin/bash");
    cmd.args(["--norc", "--noprofile", "-c", &script]).env_clear().env("LC_ALL", "C.utf8");
    let (_, out) = bvcommon::exec::output_with_timeout(&mut cmd, 3000)?;
    let s = String::from_utf8_lossy(&out).trim().to_string();
    if s.is_empty() || s.starts_with('|') {
        Some("ERR".into())
    } else {
        Some(s)
    }
}

fn model_eval(e: &A) -> String {
    let mut ev = Evaluator::new(arith::std_env());
    match ev.eval(e) {
        Ok(v) => {
            let g = |n: &str| ev.env.scalars.get(n).cloned();
            let a = |i: i64| ev.env.arrays.get("a").and_then(|m| m.get(&i)).cloned();
            format!(
                "{v}|{}|{}|{}|{}|{}|{}|{}|{}|{}|{}",
                g("x").unwrap_or_default(),
                g("y").unwrap_or_default(),
                g("z").unwrap_or_default(),
                g("e").unwrap_or_default(),
                g("i").unwrap_or_default(),
                g("u").unwrap_or("unset".into()),
                a(0).unwrap_or_default(),
                a(1).unwrap_or_default(),
                a(2).unwrap_or_default(),
                a(3).unwrap_or("unset".into())
            )
        }
        Err(ArithErr::DivZero) | Err(ArithErr::NegExp) | Err(ArithErr::Other(_)) => "ERR".into(),
    }
}

fn brush_eval(text: &str) -> String {
    let mut shell = crate::shell::fresh();
    let params = shell.default_exec_params();
    let si = brush_core::SourceInfo::from("bverif");
    if crate::shell::RT.block_on(shell.run_string(arith::STD_ENV_SH.to_string(), &si, &params)).is_err() {
        return "SETUP-FAILED".into();
    }
    let parsed = match brush_parser::arithmetic::parse(text) {
        Ok(p) => p,
        Err(_) => return "ERR".into(),
    };
    match shell.eval_arithmetic(&parsed) {
        Ok(v) => {
            let g = |n: &str| shell.env_str(n).map(|c| c.to_string());
            let mut out = format!(
                "{v}|{}|{}|{}|{}|{}|{}",
                g("x").unwrap_or_default(),
                g("y").unwrap_or_default(),
                g("z").unwrap_or_default(),
                g("e").unwrap_or_default(),
                g("i").unwrap_or_default(),
                g("u").unwrap_or("unset".into())
            );
            // array elements through the expansion engine
            for i in 0..4 {
                let w = if i == 3 { "${a[3]-unset}".to_string() } else { format!("${{a[{i}]}}") };
                let v = crate::shell::RT.block_on(shell.basic_expand_string(&params, &w)).unwrap_or_else(|_| "EXPAND-ERR".into());
                out.push('|');
                out.push_str(&v);
            }
            out
        }
        Err(_) => "ERR".into(),
    }
}

pub fn classes_of(e: &A) -> Vec<String> {
    let f = arith::facts(e);
    let mut v = vec![];
    if f.assign_in_rhs_of_same {
        v.push("arith_subscript_evaluated_twice".to_string());
    }
    v
}

impl Layer for Eval {
    type Case = Case;
    fn name(&self) -> String {
        "eval".into()
    }
    fn render(&self, c: &Case) -> String {
        c.e.render_min()
    }
    fn classes(&self, c: &Case) -> Vec<String> {
        classes_of(&c.e)
    }
    fn shrink_candidates(&self, c: &Case) -> Vec<Case> {
        arith::shrink_candidates(&c.e).into_iter().map(|e| Case { e }).collect()
    }
    fn eval(&self, c: &Case) -> Verdict {
        announce("eval", &serde_json::to_string(c).unwrap());
        let c = c.clone();
        guarded(move || {
            let f = arith::facts(&c.e);
            let model = model_eval(&c.e);
            let mut labels: Vec<String> = f.ops.iter().map(|o| format!("op:{o}")).collect();
            for lf in &f.lit_forms {
                labels.push(format!("lit:{lf}"));
            }
            if f.mixed_prec {
                labels.push("mixed-precedence".into());
            }
            if f.boundary {
                labels.push("boundary-operand".into());
            }
            if f.side_effect_under_short_circuit {
                labels.push("effect-under-short-circuit".into());
            }
            if model == "ERR" {
                labels.push("model-error".into());
            }
            let nontrivial = f.mixed_prec || f.boundary || f.side_effect_under_short_circuit;
            let mut results = vec![];
            for text in [c.e.render_min(), c.e.render_full()] {
                let brush = brush_eval(&text);
                results.push((text, brush));
            }
            let all_agree = results.iter().all(|(_, b)| *b == model);
            let cross = bvcommon::runner::hash_str(&results[0].0) % 61 == 0;
            if all_agree && !cross {
                let mut v = Verdict::pass(nontrivial).with_labels(labels);
                v.weight = 2;
                v.sample = Some(serde_json::json!({"value|x|y|z|e|i|u|a0|a1|a2|a3": model}));
                return v;
            }
            // arbiter: bash, on each rendering
            for (text, brush) in &results {
                let Some(bash) = bash_eval(text) else { return Verdict::skip("bash gave no answer") };
                if bash != model {
                    if std::env::var_os("BVERIF_DEBUG").is_some() {
                        eprintln!("ORACLE-DISAGREEMENT `{text}`: model {model} bash {bash}");
                    }
                    let mut v = Verdict::skip(format!("oracle disagreement: model {model} vs bash {bash} on `{text}`"));
                    v.labels = labels;
                    return v;
                }
                if *brush != model {
                    return Verdict::fail(format!("$(( {text} )): bash and the reference evaluator give {model} (value|x|y|z|e|i|u|a[0..3]), brush gives {brush}")).with_labels(labels);
                }
            }
            labels.push("bash-crosschecked".into());
            let mut v = Verdict::pass(nontrivial).with_labels(labels);
            v.weight = 2;
            v
        })
    }
}

pub fn run(ctx: &Ctx) -> Vec<LayerReport> {
    use proptest::strategy::Strategy;
    let n = ctx.tier.pick(60_000, 2_000_000);
    let depth = ctx.tier.pick(4, 6);
    vec![explore_par(&Eval, || arith::expr(depth).prop_map(|e| Case { e }), n, ctx)]
}

pub fn replay(layer: &str, case: &serde_json::Value) -> Result<(String, Verdict), String> {
    match layer {
        "eval" => replay_case(&Eval, case),
        _ => Err(format!("C07: unknown in-process layer {layer}")),
    }
}

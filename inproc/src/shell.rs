//! a template Shell built once; every case works on a clone

use brush_builtins::ShellBuilderExt;
use std::sync::LazyLock;

pub static RT: LazyLock<tokio::runtime::Runtime> =
    LazyLock::new(|| tokio::runtime::Builder::new_multi_thread().worker_threads(2).enable_all().build().unwrap());

pub static TEMPLATE: LazyLock<brush_core::Shell> = LazyLock::new(|| {
    RT.block_on(
        brush_core::Shell::builder()
            .profile(brush_core::ProfileLoadBehavior::Skip)
            .rc(brush_core::RcLoadBehavior::Skip)
            .do_not_inherit_env(true)
            .default_builtins(brush_builtins::BuiltinSet::BashMode)
            .build(),
    )
    .unwrap()
});

pub fn fresh() -> brush_core::Shell {
    TEMPLATE.clone()
}

//! C01 (library entry points) — no input makes the tokenizer, the parsers, the pattern translator,
//! the prompt parser or the completion entry point panic, abort or loop.
//! (Execution of scripts is checked out of process by engine/src/c01.rs.)

use crate::{announce, guarded, is_skipped};
use bvcommon::mutate;
use bvcommon::runner::{enumerate, explore_par, replay_case, Ctx, Layer, LayerReport, Verdict};
use proptest::prelude::*;
use serde::{Deserialize, Serialize};
use std::sync::OnceLock;

#[derive(Clone, Debug, Serialize, Deserialize)]
pub struct Case {
    pub text: String,
}

pub struct Entry {
    pub name: &'static str,
    /// also call the completion entry point (slower)
    pub complete: bool,
}

fn opts(extglob: bool, posix: bool, sh: bool) -> brush_parser::ParserOptions {
    brush_parser::ParserOptions { enable_extended_globbing: extglob, posix_mode: posix, sh_mode: sh, ..Default::default() }
}

/// every parse-level entry point on one text; returns a short summary of what accepted it
pub fn exercise(text: &str, complete: bool) -> Vec<String> {
    let mut ok = vec![];
    let dbg = std::env::var_os("BVERIF_DEBUG").is_some();
    let mut t0 = std::time::Instant::now();
    let mut lap = |what: &str| {
        if dbg {
            eprintln!("  {what}: {} ms", t0.elapsed().as_millis());
        }
        t0 = std::time::Instant::now();
    };
    for (e, p, s) in [(true, false, false), (false, false, false), (true, true, false), (true, false, true)] {
        let o = opts(e, p, s);
        if let Ok(toks) = brush_parser::uncached_tokenize_str(text, &o.tokenizer_options()) {
            if e && !p && !s {
                ok.push("tokenize".to_string());
                // every word token through the word parser
                for t in toks.iter().take(40) {
                    let w = t.to_str();
                    let _ = brush_parser::word::parse(w, &o);
                    let _ = brush_parser::word::parse_brace_expansions(w, &o);
                }
            }
        }
        let mut parser = brush_parser::Parser::new(std::io::BufReader::new(text.as_bytes()), &o);
        if let Ok(prog) = parser.parse_program() {
            if e && !p && !s {
                ok.push("program".to_string());
                // the printer must not fail either
                let _ = prog.to_string();
            }
        }
    }
    lap("tokenize+program");
    let o = opts(true, false, false);
    if brush_parser::word::parse(text, &o).is_ok() {
        ok.push("word".into());
    }
    lap("word");
    let _ = brush_parser::word::parse_heredoc(text, &o);
    lap("heredoc");
    if text.len() <= 200 && brush_parser::arithmetic::parse(text).is_ok() {
        ok.push("arithmetic".into());
    }
    lap("arith");
    for eg in [true, false] {
        if let Ok(re) = brush_parser::pattern::pattern_to_regex_str(text, eg) {
            if eg {
                ok.push("pattern".into());
            }
            let _ = re.len();
        }
        let _ = brush_parser::pattern::pattern_has_glob_metacharacters(text, eg);
    }
    if text.len() <= 300 {
        let _ = brush_core::patterns::Pattern::from(text).set_extended_globbing(true).exactly_matches("abc");
        let _ = brush_core::patterns::Pattern::from("a*").exactly_matches(text);
    }
    lap("pattern");
    if brush_parser::prompt::parse(text).is_ok() {
        ok.push("prompt".into());
    }
    lap("prompt");
    let words: Vec<&str> = text.split_whitespace().take(12).collect();
    let _ = brush_parser::test_command::parse(&words);
    let _ = brush_parser::readline_binding::parse_key_sequence(text);
    let _ = brush_parser::unquote_str(text);
    if complete && text.len() <= 120 {
        let mut sh = crate::shell::fresh();
        let mut positions: Vec<usize> = text.char_indices().map(|(i, _)| i).collect();
        positions.push(text.len());
        // a spread of cursor positions on character boundaries
        let step = (positions.len() / 6).max(1);
        for p in positions.iter().step_by(step).chain(std::iter::once(&text.len())) {
            let _ = crate::shell::RT.block_on(sh.complete(text, *p));
        }
        ok.push("complete".into());
    }
    ok
}

impl Layer for Entry {
    type Case = Case;
    fn name(&self) -> String {
        self.name.into()
    }
    fn render(&self, c: &Case) -> String {
        c.text.clone()
    }
    fn shrink_candidates(&self, c: &Case) -> Vec<Case> {
        let cs: Vec<char> = c.text.chars().collect();
        let mut out = vec![];
        // halves, then single characters
        if cs.len() > 4 {
            out.push(Case { text: cs[..cs.len() / 2].iter().collect() });
            out.push(Case { text: cs[cs.len() / 2..].iter().collect() });
        }
        let lines: Vec<&str> = c.text.split_inclusive('\n').collect();
        if lines.len() > 1 {
            for i in 0..lines.len() {
                let mut l = lines.clone();
                l.remove(i);
                out.push(Case { text: l.concat() });
            }
        }
        if cs.len() <= 60 {
            for i in 0..cs.len() {
                let mut n = cs.clone();
                n.remove(i);
                out.push(Case { text: n.into_iter().collect() });
            }
        }
        out
    }
    fn eval(&self, c: &Case) -> Verdict {
        if is_skipped(&c.text) {
            return Verdict::skip("reported as a crash of an earlier worker run");
        }
        announce(self.name, &serde_json::to_string(c).unwrap_or_default());
        let text = c.text.clone();
        let complete = self.complete;
        guarded(move || {
            let t0 = std::time::Instant::now();
            let ok = exercise(&text, complete);
            let ms = t0.elapsed().as_millis();
            if ms > 4000 {
                return Verdict::fail(format!("the entry points needed {ms} ms on {} bytes", text.len()));
            }
            let mut labels: Vec<String> = ok.iter().map(|s| format!("accepted-by:{s}")).collect();
            if !text.is_ascii() {
                labels.push("multi-byte".into());
            }
            if ok.is_empty() {
                labels.push("rejected-by-all".into());
            }
            Verdict::pass(text.len() >= 2).with_labels(labels)
        })
    }
}

static CORPUS: OnceLock<Vec<String>> = OnceLock::new();
pub fn corpus() -> &'static Vec<String> {
    CORPUS.get_or_init(bvcommon::corpus::load)
}

pub const ALPHABET: &[&str] = &[" ", "a", "1", "-", "=", ";", "|", "&", "(", ")", "<", ">", "$", "{", "}", "[", "]", "'", "\"", "\\", "`", "#", "~", "*", "?", "!", ",", ".", ":", "\n", "é"];

pub fn all_texts(max: usize) -> impl Iterator<Item = Case> {
    (0..=max).flat_map(|len| {
        let n = ALPHABET.len();
        let total = n.pow(len as u32);
        (0..total).map(move |mut idx| {
            let mut s = String::new();
            for _ in 0..len {
                s.push_str(ALPHABET[idx % n]);
                idx /= n;
            }
            Case { text: s }
        })
    })
}

pub fn fragments(max: usize) -> BoxedStrategy<Case> {
    let piece = prop_oneof![4 => proptest::sample::select(mutate::FRAGMENTS.to_vec()), 1 => proptest::sample::select(mutate::BOUNDARY_NUMBERS.to_vec()), 1 => proptest::sample::select(mutate::OPERANDS.to_vec())];
    proptest::collection::vec(piece, 1..=max).prop_map(|v| Case { text: v.concat() }).boxed()
}

pub fn mutants() -> BoxedStrategy<Case> {
    let n = corpus().len().max(1);
    (0..n, proptest::collection::vec(mutate::edit_strategy(), 1..=3))
        .prop_map(|(i, edits)| {
            let base = corpus().get(i).cloned().unwrap_or_default();
            Case { text: mutate::apply(&base, &edits) }
        })
        .boxed()
}

pub fn templates() -> BoxedStrategy<Case> {
    prop_oneof![4 => mutate::template_strategy().prop_map(|t| Case { text: t }), 1 => (1usize..=64, 0usize..12).prop_map(|(d, k)| Case { text: mutate::nested(d, k) })].boxed()
}

pub fn run(ctx: &Ctx) -> Vec<LayerReport> {
    let mut out = vec![];
    let max = ctx.tier.pick(3, 4);
    let expected: u64 = (0..=max).map(|l| (ALPHABET.len() as u64).pow(l as u32)).sum();
    out.push(enumerate(&Entry { name: "lib-exhaustive", complete: false }, all_texts(max), ctx, true, expected));
    let fl = ctx.tier.pick(8, 14);
    out.push(explore_par(&Entry { name: "lib-fragments", complete: false }, || fragments(fl), ctx.tier.pick(40_000, 1_500_000), ctx));
    out.push(explore_par(&Entry { name: "lib-corpus-mutants", complete: false }, mutants, ctx.tier.pick(20_000, 600_000), ctx));
    out.push(explore_par(&Entry { name: "lib-templates", complete: false }, templates, ctx.tier.pick(12_000, 300_000), ctx));
    out.push(explore_par(&Entry { name: "lib-completion", complete: true }, || fragments(6), ctx.tier.pick(4_000, 100_000), ctx));
    out
}

pub fn replay(layer: &str, case: &serde_json::Value) -> Result<(String, Verdict), String> {
    let name: &'static str = match layer {
        "lib-exhaustive" => "lib-exhaustive",
        "lib-fragments" => "lib-fragments",
        "lib-corpus-mutants" => "lib-corpus-mutants",
        "lib-templates" => "lib-templates",
        "lib-completion" => "lib-completion",
        _ => return Err(format!("C01: unknown in-process layer {layer}")),
    };
    replay_case(&Entry { name, complete: name == "lib-completion" }, case)
}

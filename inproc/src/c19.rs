//! C19 — syntax highlighting tiles the line exactly (invariant, in process).

use crate::{announce, guarded, is_skipped};
use brush_interactive::highlighting::highlight_command;
use bvcommon::runner::{enumerate, explore_par, replay_case, Ctx, Layer, LayerReport, Verdict};
use proptest::prelude::*;
use serde::{Deserialize, Serialize};

#[derive(Clone, Debug, Serialize, Deserialize)]
pub struct Line {
    pub text: String,
}

pub struct Hl {
    pub name: &'static str,
}

/// the invariant of the property, for one (line, cursor)
pub fn check_spans(line: &str, cursor: usize) -> Result<usize, String> {
    let shell = crate::shell::fresh();
    let h = highlight_command(&shell, line, cursor);
    let mut next = 0usize;
    let mut rebuilt = String::new();
    for span in h.spans() {
        if span.range.start > span.range.end {
            return Err(format!("cursor {cursor}: span start > end: {span:?}"));
        }
        if span.range.end > line.len() {
            return Err(format!("cursor {cursor}: span end beyond line: {span:?} (len {})", line.len()));
        }
        if !line.is_char_boundary(span.range.start) || !line.is_char_boundary(span.range.end) {
            return Err(format!("cursor {cursor}: span not on char boundary: {span:?}"));
        }
        if span.range.start != next {
            return Err(format!("cursor {cursor}: gap or overlap before {span:?} (expected start {next})"));
        }
        next = span.range.end;
        rebuilt.push_str(&line[span.range.clone()]);
    }
    if next != line.len() {
        return Err(format!("cursor {cursor}: spans cover {next} of {} bytes", line.len()));
    }
    if rebuilt != line {
        return Err(format!("cursor {cursor}: concatenated span texts differ from the line"));
    }
    for (_, _) in h.iter() {}
    Ok(h.spans().len())
}

impl Layer for Hl {
    type Case = Line;
    fn name(&self) -> String {
        self.name.into()
    }
    fn render(&self, c: &Line) -> String {
        c.text.clone()
    }
    fn eval(&self, c: &Line) -> Verdict {
        if is_skipped(&c.text) {
            return Verdict::skip("skipped after crash");
        }
        announce(self.name, &serde_json::to_string(c).unwrap());
        let text = c.text.clone();
        guarded(move || {
            let mut cursors: Vec<usize> = text.char_indices().map(|(i, _)| i).collect();
            cursors.push(text.len());
            let mut nspans = 0;
            for cur in &cursors {
                match check_spans(&text, *cur) {
                    Ok(n) => nspans = n,
                    Err(e) => return Verdict::fail(e),
                }
            }
            let mut labels = vec![];
            if !text.is_ascii() {
                labels.push("multibyte".to_string());
            }
            if text.contains('\n') {
                labels.push("multiline".to_string());
            }
            if text.contains("$(") || text.contains('`') {
                labels.push("substitution".to_string());
            }
            if text.contains("<<") {
                labels.push("heredoc".to_string());
            }
            let toks = brush_parser::tokenize_str(&text);
            let nontrivial = match &toks {
                Ok(t) => t.len() >= 2,
                Err(_) => {
                    labels.push("untokenizable".to_string());
                    true
                }
            };
            let mut v = Verdict::pass(nontrivial).with_labels(labels);
            v.weight = cursors.len() as u64;
            v.sample = Some(serde_json::json!({"cursors": cursors.len(), "spans_at_end": nspans}));
            v
        })
    }
}

pub const ALPHABET: &[&str] = &[" ", "a", "-", "=", ";", "|", "&", "(", ")", "<", ">", "$", "{", "}", "'", "\"", "\\", "`", "#", "~", "\n", "é"];

/// all strings over ALPHABET of length 0..=max, shortest first
pub fn all_lines(max: usize) -> impl Iterator<Item = Line> {
    (0..=max).flat_map(|len| {
        let n = ALPHABET.len();
        let total = n.pow(len as u32);
        (0..total).map(move |mut idx| {
            let mut s = String::new();
            for _ in 0..len {
                s.push_str(ALPHABET[idx % n]);
                idx /= n;
            }
            Line { text: s }
        })
    })
}

const FRAGMENTS: &[&str] = &[
    "echo", "if", "then", "fi", "for", "in", "do", "done", "case", "esac", "while", "x=1", "a b", "$x", "${x}", "${x:-y}", "${x//a/b}", "$(", ")", "$((", "))", "`", "\\`",
    "'", "\"", "\\", "\\\n", "\n", ";", ";;", "&&", "||", "|", "&", "<<EOF\n", "<<-E\n", "<<\"\"", "<<''", "<<\\\n", "EOF\n", "E\n", "<<<", ">", ">>", "2>&1", "<(", ">(", "{", "}", "(", "((", "[[", "]]", "#c", " ", "  ",
    "é", "€", "日本", "~", "~/x", "*", "?", "[a-z]", "!", "-n", "--opt", "=", "$'a\\n'", "$\"q\"", "function f", "f()", "time", "coproc", "select", "\t", "$", "${", "${#", "$((1+", "a\\", "\u{1F600}",
];

pub fn fragment_lines(max_frag: usize) -> BoxedStrategy<Line> {
    proptest::collection::vec(proptest::sample::select(FRAGMENTS.to_vec()), 1..=max_frag)
        .prop_map(|v| Line { text: v.concat() })
        .boxed()
}

pub fn run(ctx: &Ctx) -> Vec<LayerReport> {
    let mut out = vec![];
    let max = ctx.tier.pick(4, 5);
    let expected: u64 = (0..=max).map(|l| (ALPHABET.len() as u64).pow(l as u32)).sum();
    out.push(enumerate(&Hl { name: "exhaustive" }, all_lines(max), ctx, true, expected));
    let n = ctx.tier.pick(400_000, 2_000_000);
    let fl = ctx.tier.pick(8, 14);
    out.push(explore_par(&Hl { name: "fragments" }, || fragment_lines(fl), n, ctx));
    out
}

pub fn replay(layer: &str, case: &serde_json::Value) -> Result<(String, Verdict), String> {
    match layer {
        "exhaustive" => replay_case(&Hl { name: "exhaustive" }, case),
        "fragments" | "corpus" | "mutated" => replay_case(&Hl { name: "fragments" }, case),
        // diagnostic aid: the tokens of a line with their locations
        "tokens" => {
            let text = case.get("text").and_then(|t| t.as_str()).unwrap_or("");
            let toks = brush_parser::tokenize_str(text);
            let mut v = Verdict::skip("tokens");
            v.sample = Some(serde_json::json!(format!("{toks:?}")));
            Ok((text.to_string(), v))
        }
        _ => Err(format!("C19: unknown layer {layer}")),
    }
}

//! C15 (cache transparency) — parsing is a pure function of the text and the active options: the
//! results of the memoised entry points never depend on which texts were parsed earlier.
//!
//! Sequences of (entry point, text, options) are run in this long-lived process, whose caches are
//! shared by all worker threads; every result is compared with a reference obtained without history:
//! the uncached twin of the entry point (tokenizer, program parser) or, where there is none (word
//! parser, arithmetic parser, pattern matcher with its regex cache), a table filled at start-up by
//! fresh child processes that each see every (text) exactly once under a single option set.

use crate::{announce, guarded};
use bvcommon::runner::{explore_par, replay_case, Ctx, Layer, LayerReport, Verdict};
use proptest::prelude::*;
use serde::{Deserialize, Serialize};
use std::collections::BTreeMap;
use std::sync::OnceLock;

#[derive(Clone, Debug, Serialize, Deserialize, PartialEq, Eq, PartialOrd, Ord)]
pub struct Op {
    /// "tok" | "prog" | "word" | "arith" | "match"
    pub kind: String,
    pub text: String,
    /// bit0 extglob, bit1 posix, bit2 sh, bit3 tilde-after-colon / (match) case-insensitive
    pub opt: u8,
    /// subject string for "match"
    #[serde(default)]
    pub arg: String,
}

#[derive(Clone, Debug, Serialize, Deserialize)]
pub struct Case {
    pub ops: Vec<Op>,
}

pub const PROGRAMS: &[&str] = &[
    "echo @(a|b)",
    "echo !(x)",
    "echo +(a)b *(c) ?(d)",
    "case x in ?(a)) echo y ;; esac",
    "[[ ab == +(a|b) ]]",
    "x=@(a|b)",
    "echo a@(b",
    "echo <(cat)",
    "cat < <(echo hi) > >(cat)",
    "function f { echo hi; }",
    "function f() { echo hi; }",
    "f() { echo hi; }",
    "echo hi &> out",
    "echo hi &>> out",
    "echo hi |& cat",
    "[[ a < b ]]",
    "[[ a =~ ^(a|b)$ ]]",
    "echo $'a\\nb'",
    "echo $\"loc\"",
    "echo ~/x a:~/y",
    "time echo hi",
    "! time echo hi",
    "coproc cat",
    "select x in a b; do break; done",
    "for ((i=0;i<2;i++)); do :; done",
    "(( 1 << 2 ))",
    "echo {a,b}",
    "a=(1 2 3)",
    "a+=(4)",
    "declare -a x=(1 2)",
    "cat <<< here",
    "cat <<EOF\nx $y\nEOF",
    "echo a;;",
    "if then fi",
    "echo 'unterminated",
    "echo $(echo @(a|b))",
    "echo `echo hi`",
    "x=1 y=2 cmd",
    "echo a#b #c",
    "echo !x",
    "echo [!a] [^a]",
    "export x=~/a:~/b",
    "while :; do break; done 2>&1 >/dev/null",
    "{ echo a; } 3<&0",
    "echo \"a $(echo \"b\") c\"",
    "echo ${x:-@(a|b)}",
    "echo ${x/+(a)/b}",
    "echo a | ! b",
    "fn () ( echo sub )",
    "until false; do break; done",
    "case a in (a) ;& b) ;;& *) ;; esac",
    "echo \\\n continued",
    "echo a &",
    "echo a && echo b || echo c",
    "[ a = b ]",
    "echo @ ( a )",
    "echo a!(b)c",
    "echo $((1+2))",
    "echo $[1+2]",
    "echo ${#x} ${x%%a*} ${!x} ${x@Q}",
    "echo \"${a[@]}\" ${a[*]:1:2}",
    "x() { return 1; }; x",
    "echo hi 2>&1 | cat",
    "exec 3>&-",
    "echo hi >| f",
    "echo hi <> f",
    "echo *.txt ?x [a-z]",
    "true; false",
    "echo 1\necho 2",
    "# only a comment",
    "",
    "   ",
    "echo é€",
];

pub const WORDS: &[&str] = &[
    "@(a|b)", "!(x)", "+(a)b", "a@(b", "~/x", "~", "~root/x", "a:~/y", "x=~/a:~/b", "$'a\\nb'", "$\"loc\"", "${x:-@(a|b)}", "${x/+(a)/b}", "\"$x\"", "'lit'", "$(echo hi)", "`echo hi`", "$((1+2))", "$[1+2]", "{a,b}", "a\\ b",
    "${a[@]}", "${#x}", "${x@Q}", "*.txt", "[!a]", "a*(b|c)d", "?(a)", "${x:=~/y}", "~+/x", "~-/x", "a=~", "\"~\"", "$x~", "é€", "", "${!x*}", "${x:1:2}", "$1$@$*$#$?$-$$$!$0", "\"a $(echo \"b\") c\"",
];

pub const ARITH: &[&str] = &["1+2", "x=3", "a[1]++", "1 << 2", "1 ? 2 : 3", "x += 1, y", "0x10 + 010 + 2#11", "!a && ~b", "a ** b ** c", "(1+2)*3", "1 +", "", "-(-1)", "a<=b", "x>>=2", "++x - --y", "1/0", "a[b[c]]", "$x + 1", "16#ff"];

pub const PATTERNS: &[(&str, &str)] = &[
    ("@(a|b)", "a"), ("@(a|b)", "@(a|b)"), ("!(x)", "y"), ("!(x)", "!(x)"), ("+(a)", "aaa"), ("+(a)", "+(a)"), ("A*", "abc"), ("a*", "ABC"), ("[[:upper:]]", "a"), ("[[:upper:]]", "A"), ("[a-c]", "B"), ("?(a)b", "b"),
    ("*(ab)", "abab"), ("a?c", "abc"), ("a?c", "ABC"), ("\\*", "*"), ("[!a]", "b"), ("x", "X"), ("É", "é"), ("*", "a\nb"),
];

fn parser_options(opt: u8) -> brush_parser::ParserOptions {
    brush_parser::ParserOptions {
        enable_extended_globbing: opt & 1 != 0,
        posix_mode: opt & 2 != 0,
        sh_mode: opt & 4 != 0,
        tilde_expansion_at_word_start: true,
        tilde_expansion_after_colon: opt & 8 != 0,
        ..Default::default()
    }
}

fn tokenizer_options(opt: u8) -> brush_parser::TokenizerOptions {
    brush_parser::TokenizerOptions { enable_extended_globbing: opt & 1 != 0, posix_mode: opt & 2 != 0, sh_mode: opt & 4 != 0 }
}

fn shell_with(opt: u8) -> brush_core::Shell {
    let mut sh = crate::shell::fresh();
    sh.options_mut().extended_globbing = opt & 1 != 0;
    sh.options_mut().posix_mode = opt & 2 != 0;
    sh.options_mut().sh_mode = opt & 4 != 0;
    sh
}

/// the memoised entry point
pub fn cached(op: &Op) -> String {
    match op.kind.as_str() {
        "tok" => format!("{:?}", brush_parser::tokenize_str_with_options(&op.text, &tokenizer_options(op.opt))),
        "prog" => format!("{:?}", shell_with(op.opt).parse_string(op.text.clone())),
        "word" => format!("{:?}", brush_parser::word::parse(&op.text, &parser_options(op.opt))),
        "arith" => format!("{:?}", brush_parser::arithmetic::parse(&op.text)),
        "match" => format!(
            "{:?}",
            brush_core::patterns::Pattern::from(op.text.as_str()).set_extended_globbing(op.opt & 1 != 0).set_case_insensitive(op.opt & 8 != 0).exactly_matches(&op.arg).map_err(|e| e.to_string())
        ),
        _ => "?".into(),
    }
}

/// history-free reference for the kinds that have an uncached twin
fn uncached(op: &Op) -> Option<String> {
    match op.kind.as_str() {
        "tok" => Some(format!("{:?}", brush_parser::uncached_tokenize_str(&op.text, &tokenizer_options(op.opt)))),
        "prog" => Some(format!("{:?}", shell_with(op.opt).parse(op.text.as_bytes()))),
        _ => None,
    }
}

pub const OPTS: &[u8] = &[0, 1, 2, 3, 4, 5, 8, 9];

fn table_ops(opt: u8) -> Vec<Op> {
    let mut v = vec![];
    for w in WORDS {
        v.push(Op { kind: "word".into(), text: w.to_string(), opt, arg: String::new() });
    }
    if opt == 0 {
        for a in ARITH {
            v.push(Op { kind: "arith".into(), text: a.to_string(), opt: 0, arg: String::new() });
        }
    }
    if matches!(opt, 0 | 1 | 8 | 9) {
        for (p, s) in PATTERNS {
            v.push(Op { kind: "match".into(), text: p.to_string(), opt, arg: s.to_string() });
        }
    }
    v
}

static TABLE: OnceLock<Result<BTreeMap<Op, String>, String>> = OnceLock::new();

/// fill the reference table with one fresh child process per option set
fn table() -> &'static Result<BTreeMap<Op, String>, String> {
    TABLE.get_or_init(|| {
        let exe = std::env::current_exe().map_err(|e| e.to_string())?;
        let dir = std::env::temp_dir();
        let mut map = BTreeMap::new();
        for opt in OPTS {
            let ops = table_ops(*opt);
            let f = dir.join(format!("bv-c15-ref-{}-{}.json", std::process::id(), opt));
            std::fs::write(&f, serde_json::to_string(&Case { ops: ops.clone() }).unwrap()).map_err(|e| e.to_string())?;
            let out = std::process::Command::new(&exe).arg("C15").arg("--replay").arg("cache-ref").arg(&f).env_remove("BVERIF_ANNOUNCE").output().map_err(|e| e.to_string())?;
            let _ = std::fs::remove_file(&f);
            if !out.status.success() {
                return Err(format!("reference process failed: {}", String::from_utf8_lossy(&out.stderr)));
            }
            let v: serde_json::Value = serde_json::from_slice(&out.stdout).map_err(|e| format!("reference output: {e}"))?;
            let res = v["sample"]["results"].as_array().ok_or("reference output has no results")?.clone();
            if res.len() != ops.len() {
                return Err("reference output has the wrong length".into());
            }
            for (o, r) in ops.into_iter().zip(res) {
                map.insert(o, r.as_str().unwrap_or("").to_string());
            }
        }
        Ok(map)
    })
}

/// run the sequence in a fresh child process (`--replay cache`)
fn fresh_process_verdict(c: &Case) -> Option<Verdict> {
    let exe = std::env::current_exe().ok()?;
    let f = std::env::temp_dir().join(format!("bv-c15-case-{}-{:x}.json", std::process::id(), bvcommon::runner::hash_str(&format!("{:?}{:?}", c.ops, std::thread::current().id()))));
    std::fs::write(&f, serde_json::to_string(c).ok()?).ok()?;
    let out = std::process::Command::new(&exe).arg("C15").arg("--replay").arg("cache").arg(&f).env_remove("BVERIF_ANNOUNCE").output().ok();
    let _ = std::fs::remove_file(&f);
    let out = out?;
    if !out.status.success() {
        return None;
    }
    let v: serde_json::Value = serde_json::from_slice(&out.stdout).ok()?;
    let detail = v["detail"].as_str().unwrap_or("").to_string();
    Some(match v["outcome"].as_str().unwrap_or("") {
        "pass" => Verdict::pass(true),
        "fail" => Verdict::fail(detail),
        "skip" => Verdict::skip(detail),
        _ => Verdict::inconclusive(detail),
    })
}

pub struct Transparent;

impl Layer for Transparent {
    type Case = Case;
    fn name(&self) -> String {
        "cache".into()
    }
    fn render(&self, c: &Case) -> String {
        c.ops.iter().map(|o| format!("{} opt={:04b} {:?}{}", o.kind, o.opt, o.text, if o.kind == "match" { format!(" ~ {:?}", o.arg) } else { String::new() })).collect::<Vec<_>>().join("\n")
    }
    fn shrink_candidates(&self, c: &Case) -> Vec<Case> {
        let mut out = vec![];
        for i in 0..c.ops.len() {
            if c.ops.len() > 1 {
                let mut ops = c.ops.clone();
                ops.remove(i);
                out.push(Case { ops });
            }
        }
        out
    }
    fn eval_for_shrink(&self, c: &Case) -> Verdict {
        // from a clean state: a fresh process runs exactly this sequence
        match fresh_process_verdict(c) {
            Some(v) => v,
            None => self.eval(c),
        }
    }
    fn eval(&self, c: &Case) -> Verdict {
        announce("cache", &serde_json::to_string(c).unwrap_or_default());
        let c = c.clone();
        guarded(move || {
            let tab = match table() {
                Ok(t) => t,
                Err(e) => return Verdict::inconclusive(format!("no reference table: {e}")),
            };
            let mut labels = vec![];
            let mut same_text_other_opt = false;
            let mut sensitive = false;
            for (i, op) in c.ops.iter().enumerate() {
                let got = cached(op);
                let want = match uncached(op) {
                    Some(w) => w,
                    None => match tab.get(op) {
                        Some(w) => w.clone(),
                        None => return Verdict::skip(format!("no reference for {op:?}")),
                    },
                };
                labels.push(format!("kind:{}", op.kind));
                if let Some(prev) = c.ops[..i].iter().find(|p| p.kind == op.kind && p.text == op.text && p.arg == op.arg && p.opt != op.opt) {
                    same_text_other_opt = true;
                    // did the options matter for this text?
                    let other = uncached(prev).or_else(|| tab.get(prev).cloned()).unwrap_or_default();
                    if other != want {
                        sensitive = true;
                    }
                }
                if got != want {
                    return Verdict::fail(format!(
                        "step {} ({} {:?} with options {:04b}) returned\n  {}\nbut without any parsing history the result is\n  {}",
                        i + 1,
                        op.kind,
                        op.text,
                        op.opt,
                        bvcommon::exec::trunc(&got, 600),
                        bvcommon::exec::trunc(&want, 600)
                    ));
                }
            }
            labels.sort();
            labels.dedup();
            if same_text_other_opt {
                labels.push("same-text-under-other-options".into());
            }
            if sensitive {
                labels.push("options-change-the-result".into());
            }
            let mut v = Verdict::pass(sensitive).with_labels(labels);
            v.weight = c.ops.len() as u64;
            v.sample = Some(serde_json::json!({"ops": c.ops.len(), "first": c.ops.first()}));
            v
        })
    }
}

fn op_strategy() -> BoxedStrategy<Op> {
    let opt = proptest::sample::select(OPTS.to_vec());
    prop_oneof![
        3 => (proptest::sample::select(PROGRAMS.to_vec()), proptest::sample::select(vec![0u8, 1, 2, 3, 4, 5])).prop_map(|(t, o)| Op { kind: "prog".into(), text: t.to_string(), opt: o, arg: String::new() }),
        3 => (proptest::sample::select(PROGRAMS.to_vec()), proptest::sample::select(vec![0u8, 1, 2, 3, 4, 5])).prop_map(|(t, o)| Op { kind: "tok".into(), text: t.to_string(), opt: o, arg: String::new() }),
        3 => (proptest::sample::select(WORDS.to_vec()), opt).prop_map(|(t, o)| Op { kind: "word".into(), text: t.to_string(), opt: o, arg: String::new() }),
        1 => proptest::sample::select(ARITH.to_vec()).prop_map(|t| Op { kind: "arith".into(), text: t.to_string(), opt: 0, arg: String::new() }),
        2 => (proptest::sample::select(PATTERNS.to_vec()), proptest::sample::select(vec![0u8, 1, 8, 9])).prop_map(|((p, s), o)| Op { kind: "match".into(), text: p.to_string(), opt: o, arg: s.to_string() }),
    ]
    .boxed()
}

/// a sequence in which texts recur under different options: pick a few ops, then re-issue some of
/// them with other option bits
fn case_strategy() -> BoxedStrategy<Case> {
    (proptest::collection::vec(op_strategy(), 1..=5), proptest::collection::vec((0usize..5, proptest::sample::select(OPTS.to_vec())), 1..=5))
        .prop_map(|(mut ops, again)| {
            let base = ops.len();
            for (i, o) in again {
                let mut op = ops[i % base].clone();
                op.opt = match op.kind.as_str() {
                    "arith" => 0,
                    "match" => o & 9,
                    "prog" | "tok" => o & 7,
                    _ => o,
                };
                ops.push(op);
            }
            Case { ops }
        })
        .boxed()
}

pub fn run(ctx: &Ctx) -> Vec<LayerReport> {
    // build the reference table before any cached call is made in this process
    let _ = table();
    let n = ctx.tier.pick(40_000, 600_000);
    vec![explore_par(&Transparent, case_strategy, n, ctx)]
}

pub fn replay(layer: &str, case: &serde_json::Value) -> Result<(String, Verdict), String> {
    match layer {
        "cache" => replay_case(&Transparent, case),
        "cache-ref" => {
            // fresh process: every op is evaluated once, in order, through the memoised entry points
            let c: Case = serde_json::from_value(case.clone()).map_err(|e| e.to_string())?;
            let results: Vec<String> = c.ops.iter().map(cached).collect();
            let mut v = Verdict::pass(true);
            v.sample = Some(serde_json::json!({"results": results}));
            Ok((String::new(), v))
        }
        _ => Err(format!("C15: unknown in-process layer {layer}")),
    }
}

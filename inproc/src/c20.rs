//! C20 — history saved once, in order, reloads as saved: operation sequences against a model.

use crate::{announce, guarded};
use brush_builtins::ShellBuilderExt;
use bvcommon::runner::{enumerate, explore, replay_case, Ctx, Layer, LayerReport, Verdict};
use proptest::prelude::*;
use serde::{Deserialize, Serialize};

#[derive(Clone, Debug, Serialize, Deserialize, PartialEq, Eq)]
pub enum Op {
    Add(String),
    Save,
    NewSession,
    Delete(usize),
    Clear,
    ToggleTs,
}

#[derive(Clone, Debug, Serialize, Deserialize)]
pub struct Case {
    pub ops: Vec<Op>,
}

pub const COMMANDS: &[&str] = &["a", "b b", "  c  ", "#x"];

#[derive(Clone, Debug, PartialEq, Eq)]
struct MItem {
    cmd: String,
    ts: bool,
    dirty: bool,
}

#[derive(Default)]
struct Model {
    /// lines of the file; timestamps normalised to "#T"
    file: Vec<String>,
    session: Vec<MItem>,
    ts_enabled: bool,
}

impl Model {
    fn apply(&mut self, op: &Op) {
        match op {
            Op::Add(c) => {
                let t = c.trim();
                if !t.is_empty() {
                    self.session.push(MItem { cmd: t.to_string(), ts: true, dirty: true });
                }
            }
            Op::Save => {
                for it in self.session.iter_mut() {
                    if it.dirty {
                        if self.ts_enabled && it.ts {
                            self.file.push("#T".into());
                        }
                        self.file.push(it.cmd.clone());
                        it.dirty = false;
                    }
                }
            }
            Op::NewSession => {
                // what the property promises: the sequence in the file, timestamps attached to the
                // command they were written in front of
                self.session.clear();
                let mut ts = false;
                for l in &self.file {
                    if l == "#T" {
                        ts = true;
                        continue;
                    }
                    if l.starts_with('#') {
                        // a recorded command starting with '#' is outside the guarantee; it is not
                        // expected back, and it separates a preceding timestamp from what follows
                        ts = false;
                        continue;
                    }
                    self.session.push(MItem { cmd: l.clone(), ts, dirty: false });
                    ts = false;
                }
                self.ts_enabled = false;
            }
            Op::Delete(i) => {
                if *i < self.session.len() {
                    self.session.remove(*i);
                }
            }
            Op::Clear => self.session.clear(),
            Op::ToggleTs => self.ts_enabled = !self.ts_enabled,
        }
    }
}

fn new_shell(histfile: &std::path::Path) -> brush_core::Shell {
    crate::shell::RT
        .block_on(
            brush_core::Shell::builder()
                .profile(brush_core::ProfileLoadBehavior::Skip)
                .rc(brush_core::RcLoadBehavior::Skip)
                .do_not_inherit_env(true)
                .interactive(true)
                .default_builtins(brush_builtins::BuiltinSet::BashMode)
                .var("HISTFILE", brush_core::ShellVariable::new(histfile.to_string_lossy().to_string()))
                .build(),
        )
        .expect("shell")
}

fn normalise_file(p: &std::path::Path) -> Vec<String> {
    let text = std::fs::read_to_string(p).unwrap_or_default();
    text.lines()
        .map(|l| {
            if l.len() > 1 && l.starts_with('#') && l[1..].chars().all(|c| c.is_ascii_digit()) {
                "#T".to_string()
            } else {
                l.to_string()
            }
        })
        .collect()
}

pub struct Hist {
    pub name: &'static str,
}

static COUNTER: std::sync::atomic::AtomicU64 = std::sync::atomic::AtomicU64::new(0);

impl Layer for Hist {
    type Case = Case;
    fn name(&self) -> String {
        self.name.into()
    }
    fn render(&self, c: &Case) -> String {
        c.ops
            .iter()
            .map(|o| match o {
                Op::Add(s) => format!("add({s:?})"),
                Op::Save => "save".into(),
                Op::NewSession => "new-session".into(),
                Op::Delete(i) => format!("delete({i})"),
                Op::Clear => "clear".into(),
                Op::ToggleTs => "toggle-timestamps".into(),
            })
            .collect::<Vec<_>>()
            .join(" ")
    }
    fn shrink_candidates(&self, c: &Case) -> Vec<Case> {
        (0..c.ops.len())
            .map(|i| {
                let mut o = c.ops.clone();
                o.remove(i);
                Case { ops: o }
            })
            .collect()
    }
    fn eval(&self, c: &Case) -> Verdict {
        announce(self.name, &serde_json::to_string(c).unwrap());
        let c = c.clone();
        guarded(move || {
            let n = COUNTER.fetch_add(1, std::sync::atomic::Ordering::Relaxed);
            let dir = std::path::PathBuf::from(format!("/dev/shm/bverif-hist.{}", std::process::id()));
            let _ = std::fs::create_dir_all(&dir);
            let path = dir.join(format!("h{n}"));
            let _ = std::fs::remove_file(&path);
            let mut shell = new_shell(&path);
            let mut model = Model::default();
            let params = shell.default_exec_params();
            let si = brush_core::SourceInfo::from("bverif");
            let mut saved_after_add = false;
            let mut op_after_save = false;
            let mut has_add = false;
            let mut reloads = 0;
            let has_hash = c.ops.iter().any(|o| matches!(o, Op::Add(s) if s.trim().starts_with('#')));
            for (step, op) in c.ops.iter().enumerate() {
                if saved_after_add {
                    op_after_save = true;
                }
                match op {
                    Op::Add(s) => {
                        has_add = true;
                        if let Err(e) = shell.add_to_history(s) {
                            return Verdict::fail(format!("step {step}: add_to_history failed: {e}"));
                        }
                    }
                    Op::Save => {
                        if has_add {
                            saved_after_add = true;
                        }
                        if let Err(e) = shell.save_history() {
                            return Verdict::fail(format!("step {step}: save_history failed: {e}"));
                        }
                    }
                    Op::NewSession => {
                        reloads += 1;
                        drop(shell);
                        shell = new_shell(&path);
                    }
                    Op::Delete(i) => {
                        if let Some(h) = shell.history_mut() {
                            h.remove_nth_item(*i);
                        }
                    }
                    Op::Clear => {
                        if let Some(h) = shell.history_mut() {
                            let _ = h.clear();
                        }
                    }
                    Op::ToggleTs => {
                        let cmd = if model.ts_enabled { "unset HISTTIMEFORMAT" } else { "HISTTIMEFORMAT='%F '" };
                        let _ = crate::shell::RT.block_on(shell.run_string(cmd.to_string(), &si, &params));
                    }
                }
                model.apply(op);
                // ---- compare -----------------------------------------------------------------
                let file = normalise_file(&path);
                let session: Vec<(String, bool)> = shell.history().map(|h| h.iter().map(|i| (i.command_line.clone(), i.timestamp.is_some())).collect()).unwrap_or_default();
                let msession: Vec<(String, bool)> = model.session.iter().map(|i| (i.cmd.clone(), i.ts)).collect();
                let (file_ok, sess_ok) = if has_hash {
                    // only the projection on commands not starting with '#' is promised
                    let f1: Vec<&String> = file.iter().filter(|l| !l.starts_with('#')).collect();
                    let f2: Vec<&String> = model.file.iter().filter(|l| !l.starts_with('#')).collect();
                    let s1: Vec<&String> = session.iter().map(|x| &x.0).filter(|l| !l.starts_with('#')).collect();
                    let s2: Vec<&String> = msession.iter().map(|x| &x.0).filter(|l| !l.starts_with('#')).collect();
                    (f1 == f2, s1 == s2)
                } else {
                    (file == model.file, session == msession)
                };
                if !file_ok {
                    let _ = std::fs::remove_file(&path);
                    return Verdict::fail(format!("after step {step} ({op:?}): history file is {file:?}, expected {:?}", model.file));
                }
                if !sess_ok {
                    let _ = std::fs::remove_file(&path);
                    return Verdict::fail(format!("after step {step} ({op:?}): session history is {session:?} (command, has timestamp), expected {msession:?}"));
                }
            }
            let _ = std::fs::remove_file(&path);
            let mut labels = vec![];
            if reloads > 0 && saved_after_add {
                labels.push("reload-after-save".to_string());
            }
            if has_hash {
                labels.push("hash-command".to_string());
            }
            if c.ops.contains(&Op::ToggleTs) {
                labels.push("timestamps".to_string());
            }
            Verdict::pass(saved_after_add && op_after_save).with_labels(labels)
        })
    }
}

fn all_ops() -> Vec<Op> {
    let mut v: Vec<Op> = COMMANDS.iter().map(|c| Op::Add(c.to_string())).collect();
    v.extend([Op::Save, Op::NewSession, Op::Delete(0), Op::Delete(1), Op::Clear, Op::ToggleTs]);
    v
}

pub fn all_sequences(max: usize) -> impl Iterator<Item = Case> {
    let ops = all_ops();
    (0..=max).flat_map(move |len| {
        let ops = ops.clone();
        let n = ops.len();
        (0..n.pow(len as u32)).map(move |mut idx| {
            let mut v = vec![];
            for _ in 0..len {
                v.push(ops[idx % n].clone());
                idx /= n;
            }
            Case { ops: v }
        })
    })
}

pub fn run(ctx: &Ctx) -> Vec<LayerReport> {
    let max = ctx.tier.pick(5, 6);
    let n = all_ops().len() as u64;
    let expected: u64 = (0..=max).map(|l| n.pow(l as u32)).sum();
    let mut out = vec![enumerate(&Hist { name: "exhaustive" }, all_sequences(max), ctx, true, expected)];
    let op = prop_oneof![
        4 => proptest::sample::select(COMMANDS.to_vec()).prop_map(|c| Op::Add(c.to_string())),
        2 => "[a-z ]{1,6}".prop_map(Op::Add),
        3 => Just(Op::Save),
        2 => Just(Op::NewSession),
        1 => (0usize..4).prop_map(Op::Delete),
        1 => Just(Op::Clear),
        1 => Just(Op::ToggleTs),
    ];
    let cnt = ctx.tier.pick(5_000, 100_000);
    out.push(explore(&Hist { name: "random" }, proptest::collection::vec(op, 5..=12).prop_map(|ops| Case { ops }), cnt, ctx));
    // sessions made of phases (optionally switch timestamps, record 1-2 commands, save), with reloads
    // between and after them: the histories in which saved items written under different timestamp
    // settings meet in one file
    let phase = (proptest::bool::weighted(0.5), proptest::collection::vec(proptest::sample::select(COMMANDS.to_vec()), 1..=2), proptest::bool::weighted(0.85), proptest::bool::weighted(0.4), proptest::option::weighted(0.15, 0usize..3)).prop_map(
        |(toggle, cmds, save, reload, del)| {
            let mut v = vec![];
            if toggle {
                v.push(Op::ToggleTs);
            }
            for c in cmds {
                v.push(Op::Add(c.to_string()));
            }
            if let Some(d) = del {
                v.push(Op::Delete(d));
            }
            if save {
                v.push(Op::Save);
            }
            if reload {
                v.push(Op::NewSession);
            }
            v
        },
    );
    let phased = proptest::collection::vec(phase, 2..=4).prop_map(|ps| {
        let mut ops: Vec<Op> = ps.concat();
        ops.push(Op::NewSession);
        Case { ops }
    });
    out.push(explore(&Hist { name: "phased" }, phased, ctx.tier.pick(5_000, 100_000), ctx));
    let _ = std::fs::remove_dir_all(format!("/dev/shm/bverif-hist.{}", std::process::id()));
    out
}

pub fn replay(layer: &str, case: &serde_json::Value) -> Result<(String, Verdict), String> {
    match layer {
        "exhaustive" | "random" | "phased" => replay_case(&Hist { name: "random" }, case),
        _ => Err(format!("C20: unknown layer {layer}")),
    }
}

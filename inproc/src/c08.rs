//! C08 — patterns: brush's matcher vs the reference matcher (mismatches confirmed against bash).

use crate::{announce, guarded};
use bvcommon::globmodel::{self, Opts};
use bvcommon::runner::{enumerate, explore_par, hash_str, replay_case, Ctx, Layer, LayerReport, Verdict};
use proptest::prelude::*;
use serde::{Deserialize, Serialize};

#[derive(Clone, Debug, Serialize, Deserialize)]
pub struct Case {
    pub p: String,
    pub extglob: bool,
    pub nocase: bool,
    /// subjects; empty = all strings over SUBJECT_ALPHABET up to `maxlen`
    pub subjects: Vec<String>,
    pub maxlen: usize,
}

pub const PAT_ALPHABET: &[char] = &['a', 'b', '*', '?', '[', ']', '!', '-', '\\'];
pub const EXT_ALPHABET: &[char] = &['a', 'b', '*', '?', '!', '(', '|', ')', '@', '+'];
pub const SUBJECT_ALPHABET: &[char] = &['a', 'b', ']', '-', '\n', 'é'];

pub fn all_strings(alpha: &'static [char], max: usize) -> impl Iterator<Item = String> {
    (0..=max).flat_map(move |len| {
        let n = alpha.len();
        (0..n.pow(len as u32)).map(move |mut idx| {
            let mut s = String::new();
            for _ in 0..len {
                s.push(alpha[idx % n]);
                idx /= n;
            }
            s
        })
    })
}

fn bash_matches(p: &str, s: &str, extglob: bool, nocase: bool) -> Option<bool> {
    let script = format!(
        "shopt -{} extglob\nshopt -{} nocasematch\ncase \"$S\" in $P) echo 1;; *) echo 0;; esac\n",
        if extglob { "s" } else { "u" },
        if nocase { "s" } else { "u" }
    );
    let mut cmd = std::process::Command::new("/usr/bin/bash");
    cmd.args(["--norc", "--noprofile", "-c", &script]).env_clear().env("LC_ALL", "C.utf8").env("P", p).env("S", s);
    let (_, stdout) = bvcommon::exec::output_with_timeout(&mut cmd, 3000)?;
    match String::from_utf8_lossy(&stdout).trim() {
        "1" => Some(true),
        "0" => Some(false),
        _ => None,
    }
}

fn brush_matches(p: &str, s: &str, extglob: bool, nocase: bool) -> Result<bool, String> {
    brush_core::patterns::Pattern::from(p)
        .set_extended_globbing(extglob)
        .set_case_insensitive(nocase)
        .exactly_matches(s)
        .map_err(|e| e.to_string())
}

pub struct Match {
    pub name: &'static str,
}

impl Layer for Match {
    type Case = Case;
    fn name(&self) -> String {
        self.name.into()
    }
    fn render(&self, c: &Case) -> String {
        format!("pattern {:?} extglob={} nocase={} subjects={}", c.p, c.extglob, c.nocase, if c.subjects.is_empty() { format!("all<={}", c.maxlen) } else { format!("{:?}", c.subjects) })
    }
    fn classes(&self, c: &Case) -> Vec<String> {
        let mut v = vec![];
        // `[]…]` / `[!]…]`: a literal `]` right after the opening bracket
        if c.extglob && c.p.contains("!(") {
            v.push("extglob_negation".to_string());
        }
        if c.nocase && (c.p.contains("[:upper:]") || c.p.contains("[:lower:]")) {
            v.push("nocase_with_case_class".to_string());
        }
        v
    }
    fn eval(&self, c: &Case) -> Verdict {
        announce(self.name, &serde_json::to_string(c).unwrap());
        let c = c.clone();
        guarded(move || {
            let o = Opts { extglob: c.extglob, nocase: c.nocase };
            if globmodel::parse(&c.p, o).is_none() {
                return Verdict::skip("pattern outside the model");
            }
            let subjects: Vec<String> = if c.subjects.is_empty() { all_strings(SUBJECT_ALPHABET, c.maxlen).collect() } else { c.subjects.clone() };
            let mut labels = vec![];
            let mut evals = 0u64;
            let mut decided_by_content = false;
            let mut disagreements = 0u64;
            for s in &subjects {
                let Some(model) = globmodel::matches(&c.p, s, o) else { return Verdict::skip("pattern outside the model") };
                let brush = brush_matches(&c.p, s, c.extglob, c.nocase);
                evals += 1;
                let cross = hash_str(&format!("{}\u{0}{}", c.p, s)) % 97 == 0;
                let agree = matches!(&brush, Ok(b) if *b == model);
                if agree && !cross {
                    if model {
                        decided_by_content = true;
                    }
                    continue;
                }
                let bash = bash_matches(&c.p, s, c.extglob, c.nocase);
                if cross {
                    labels.push("bash-crosschecked".to_string());
                }
                match bash {
                    Some(b) if b == model => {
                        if !agree {
                            return Verdict::fail(format!(
                                "pattern {:?} vs string {:?} (extglob={}, nocasematch={}): reference matcher and bash say {}, brush says {:?}",
                                c.p, s, c.extglob, c.nocase, model, brush
                            ))
                            .with_labels(labels);
                        }
                    }
                    Some(_) => {
                        disagreements += 1;
                    }
                    None => {
                        // bash itself did not answer in time (its extglob matcher can go exponential)
                        return Verdict::skip("bash gave no answer (time-out)");
                    }
                }
            }
            if disagreements > 0 {
                let mut v = Verdict::skip(format!("oracle disagreement (model vs bash) on {disagreements} subjects"));
                v.labels = labels;
                return v;
            }
            if c.p.contains('\n') || subjects.iter().any(|s| s.contains('\n')) {
                labels.push("subject-with-newline".into());
            }
            if c.p.contains('[') {
                labels.push("bracket".into());
            }
            if c.p.contains("!(") {
                labels.push("ext-not".into());
            }
            if c.extglob && c.p.contains('(') {
                labels.push("extglob-group".into());
            }
            let nontrivial = globmodel::has_meta(&c.p, o) && decided_by_content;
            let mut v = Verdict::pass(nontrivial).with_labels(labels);
            v.weight = evals;
            v.sample = Some(serde_json::json!({"subjects": subjects.len()}));
            v
        })
    }
}

// ---- grammar-generated well-formed patterns ---------------------------------------------------

fn lit() -> impl Strategy<Value = String> {
    prop_oneof![
        4 => proptest::sample::select(vec!["a", "b", "c", "A", "é", "-", "]", "."]).prop_map(String::from),
        1 => proptest::sample::select(vec!["\\*", "\\?", "\\[", "\\\\", "\\a", "\\(", "\\|"]).prop_map(String::from),
    ]
}

fn bracket() -> impl Strategy<Value = String> {
    (
        proptest::sample::select(vec!["", "!", "^"]),
        any::<bool>(),
        proptest::collection::vec(
            prop_oneof![
                3 => proptest::sample::select(vec!["a", "b", "c", "A", "é", ".", "*", "?"]).prop_map(String::from),
                2 => proptest::sample::select(vec!["a-c", "A-C", "0-9", "a-a", "b-é"]).prop_map(String::from),
                2 => proptest::sample::select(vec!["[:alpha:]", "[:digit:]", "[:upper:]", "[:lower:]", "[:space:]", "[:punct:]", "[:alnum:]"]).prop_map(String::from),
                1 => proptest::sample::select(vec!["\\]", "\\\\", "\\-"]).prop_map(String::from),
            ],
            1..=3,
        ),
        any::<bool>(),
    )
        .prop_map(|(neg, lead_rb, items, trail_dash)| format!("[{}{}{}{}]", neg, if lead_rb { "]" } else { "" }, items.concat(), if trail_dash { "-" } else { "" }))
}

fn pat(depth: u32) -> BoxedStrategy<String> {
    let atom = prop_oneof![4 => lit(), 2 => Just("*".to_string()), 2 => Just("?".to_string()), 2 => bracket()];
    if depth == 0 {
        // sub-patterns inside groups are short and non-empty (empty alternatives inside `*( )`
        // make bash's own matcher exponential)
        return proptest::collection::vec(atom, 1..=3).prop_map(|v| v.concat()).boxed();
    }
    let sub = pat(depth - 1);
    let ext = (proptest::sample::select(vec!["?", "*", "+", "@", "!"]), proptest::collection::vec(sub, 1..=2)).prop_map(|(k, alts)| format!("{k}({})", alts.join("|")));
    proptest::collection::vec(prop_oneof![6 => atom, 2 => ext], 0..=4).prop_map(|v| v.concat()).boxed()
}

fn subject() -> impl Strategy<Value = String> {
    proptest::collection::vec(proptest::sample::select(vec!["a", "b", "c", "A", "B", "é", "-", "]", ".", "*", "?", "[", "\n", " ", "0", "\\", "(", "|"]), 0..=8).prop_map(|v| v.concat())
}

pub fn grammar_cases() -> BoxedStrategy<Case> {
    (pat(1), proptest::collection::vec(subject(), 6..=12), any::<bool>(), proptest::bool::weighted(0.2))
        .prop_map(|(p, mut subjects, extglob, nocase)| {
            // always include subjects derived from the pattern text itself (near matches)
            let stripped: String = p.chars().filter(|c| !"*?[]!()|@+\\^:".contains(*c)).take(8).collect();
            subjects.push(stripped.clone());
            subjects.push(format!("{stripped}\n"));
            subjects.push(format!("x\n{stripped}"));
            subjects.push(String::new());
            Case { p, extglob, nocase, subjects, maxlen: 0 }
        })
        .boxed()
}

pub fn run(ctx: &Ctx) -> Vec<LayerReport> {
    let mut out = vec![];
    let (plen, slen) = (ctx.tier.pick(3, 5), ctx.tier.pick(3, 4));
    let in_model = |p: &String, ext: bool| globmodel::parse(p, Opts { extglob: ext, nocase: false }).is_some();
    let total: u64 = (0..=plen).map(|l| (PAT_ALPHABET.len() as u64).pow(l as u32)).sum();
    let pats: Vec<Case> = all_strings(PAT_ALPHABET, plen)
        .filter(|p| in_model(p, false))
        .map(|p| Case { p, extglob: false, nocase: false, subjects: vec![], maxlen: slen })
        .collect();
    let kept = pats.len() as u64;
    let mut rep = enumerate(&Match { name: "exhaustive-basic" }, pats.into_iter(), ctx, true, kept);
    rep.notes.push(format!("{} of {} patterns of length <= {plen} are outside the model (they end in an unescaped backslash) and were not enumerated", total - kept, total));
    out.push(rep);
    let eplen = ctx.tier.pick(4, 5);
    let eslen = ctx.tier.pick(3, 3);
    let epats: Vec<Case> = all_strings(EXT_ALPHABET, eplen)
        .filter(|p| p.contains('(') && in_model(p, true))
        .map(|p| Case { p, extglob: true, nocase: false, subjects: vec![], maxlen: eslen })
        .collect();
    let kept = epats.len() as u64;
    let mut rep = enumerate(&Match { name: "exhaustive-extglob" }, epats.into_iter(), ctx, true, kept);
    rep.notes.push(format!("patterns over {:?} up to length {eplen} that contain '(' and are well-formed for the model (unterminated groups excluded)", EXT_ALPHABET));
    out.push(rep);
    let n = ctx.tier.pick(20_000, 400_000);
    out.push(explore_par(&Match { name: "grammar" }, grammar_cases, n, ctx));
    out
}

pub fn replay(layer: &str, case: &serde_json::Value) -> Result<(String, Verdict), String> {
    match layer {
        "exhaustive-basic" | "exhaustive-extglob" | "grammar" => replay_case(&Match { name: "grammar" }, case),
        _ => Err(format!("C08: unknown in-process layer {layer}")),
    }
}

#!/usr/bin/env python3
"""Regenerates /verif/MANIFEST.json from the table below (single source of truth for the interface)."""
import json, subprocess

ALL = [f"C{i:02d}" for i in range(1, 21)]

# id -> (technique, level text, level_note, design_ref)
CHECKS = {
 "C02": ("grammar-based property testing (proptest strategies over a typed control-flow AST, structural shrinking), differential oracle vs bash 5.2.15",
         "Generated-program search: thousands of distinct programs from the control-flow grammar (quick) / tens of thousands at greater depth (thorough), each run under brush and bash in identical sandboxes; stdout trace of marker leaves and $? probes plus exit status compared exactly. Exploration, not proof: holds on the programs generated.",
         "bash 5.2.15 is the reference for 'bash'; statuses limited to {0,1,2,77,255}; programs in listed known-finding classes are counted and skipped", "DESIGN.md §3 C02 (design) and §8 (as built)"),
}

CHECKS.update({
 "C03": ("grammar-based property testing (C02 grammar + option toggles, pipelines, substitutions, eval, nounset leaves), differential oracle vs bash 5.2.15",
         "Generated-program search over the control-flow grammar extended with set -e/-u/pipefail/inherit_errexit/errtrace toggles at arbitrary positions, failing leaves everywhere and unset-parameter expansion leaves, under every initial option combination; last marker before exit and exit status compared with bash. Exploration.",
         "bash 5.2.15 reference; exit status compared zero/non-zero when bash stops on an unbound variable (5.2 uses 127); ERR-trap firing is not compared here (C16 covers traps)", "DESIGN.md §3 C03 (design) and §8 (as built)"),
 "C08": ("bounded-exhaustive enumeration + grammar-based property testing against a reference glob matcher (in process), mismatches confirmed against bash; differential testing of shell contexts and pathname expansion",
         "All patterns up to length 3 (quick) / 5 (thorough) over a 9-symbol alphabet x all subjects up to length 3/4, all short extglob patterns, 20k+ grammar-generated well-formed patterns, each decided by the harness's reference matcher with bash as arbiter; plus case/[[ ]]/${s#p} contexts and pathname expansion on generated trees vs bash. Exhaustive within the stated bounds (evidence marks which layers), exploration beyond.",
         "reference matcher trusted only where bash agrees (every mismatch re-checked against bash; 1/97 of agreeing pairs cross-checked); LC_ALL=C.utf8; collation-dependent ranges excluded", "DESIGN.md §3 C08 (design) and §8 (as built)"),
 "C19": ("bounded-exhaustive enumeration + random fragment concatenation, invariant oracle (in process)",
         "Every line over a 22-symbol metacharacter alphabet up to length 4 (quick) / 5 (thorough) and 4x10^5 / 2x10^6 random concatenations of shell fragments, each with every cursor on a character boundary, checked against the tiling invariant (ordered, contiguous, char-aligned spans covering the line; concatenation reproduces it; no panic). Exhaustive within the length bound, exploration beyond.",
         "highlighter called on a clone of a default Shell with default builtins; debug assertions on", "DESIGN.md §3 C19 (design) and §8 (as built)"),
})

CHECKS.update({
 "C07": ("grammar-based property testing of expression trees against a reference evaluator (in process, bash as arbiter) + differential testing of the shell contexts",
         "60k (quick) / 2M (thorough) generated expression trees, each rendered with minimal and with redundant parentheses, evaluated by brush's parser+evaluator in process and compared (value and all variables afterwards) with the harness's wrapping-i64 evaluator; mismatches and a 1/61 sample arbitrated by bash. The same trees through $(( )), (( )), let, substring offsets, subscripts, for((;;)) and declare -i vs bash. Exploration.",
         "reference evaluator believed only where bash 5.2.15 agrees; x86-64 shift semantics; variables' contents limited to literals, names and `a op b`", "DESIGN.md §3 C07 (design) and §8 (as built)"),
})

CHECKS.update({
 "C14": ("grammar-based property testing with a round-trip oracle (parse -> print -> parse -> print, in process) + process-level re-import of declare -f/type/export -f text into brush and bash",
         "30k (quick) / 600k (thorough) generated function bodies covering every compound command, redirect kinds and counts (every operator also with an explicit descriptor number), here-strings, process substitutions, nested functions etc.: printed text must re-parse to the same AST (locations erased) and print to the same text; 400/8000 generated functions are printed by the running shell and re-read by a fresh brush and by bash, behaviour compared. Exploration.",
         "bodies brush's own parser rejects are outside the property; `{Fd:n}` vs `{Duplicate:\"n\"}` redirect targets and the position of redirects on command-word-less simple commands are treated as equal ASTs", "DESIGN.md §3 C14 (design) and §8 (as built)"),
 "C20": ("bounded-exhaustive enumeration of operation sequences + random sequences against an executable model (in process)",
         "All sequences of up to 5 (quick) / 6 (thorough) operations over add/save/new-session/delete/clear/toggle-timestamps plus random longer ones (5k/100k) and phased sessions (2-4 phases of toggle / record / save / reload, 5k/100k), driven through the Shell/History API on a real file; file bytes and reloaded history compared with a model written from the property after every step. Exhaustive within the length bound.",
         "driven through the library API (Shell::add_to_history/save_history, fresh interactive Shell on the same HISTFILE), not through a terminal; timestamps compared as present/absent", "DESIGN.md §3 C20 (design) and §8 (as built)"),
})

CHECKS.update({
 "C04": ("bounded-exhaustive enumeration + dictionary-based random generation of adversarial values, model oracle (expected argv / file bytes computed by the harness, validated against bash on every case)",
         "Every value of length <= 2 (quick) / 3 (thorough) over a 32-symbol adversarial alphabet under 8 IFS/glob-option configurations, plus thousands of random concatenations of injection canaries, braces, tildes and nested expansions; each value is injected through the environment and $1 and pushed through ~30 quoting contexts whose expected argv and file bytes the harness computes. Exhaustive within the length bound, exploration beyond.",
         "values without NUL; custom IFS characters limited to ASCII characters that do not occur in the literal words of the check script (brush also splits literal text at non-whitespace IFS characters: documented upstream gap, outside C04/C05)", "DESIGN.md §3 C04 (design) and §8 (as built)"),
})

CHECKS.update({
 "C05": ("grammar-based property testing of unquoted words (piece grammar x variable environment x IFS x directory tree), differential oracle vs bash 5.2.15",
         "8k (quick) / 100k (thorough) generated cases of 3-6 words each, every word evaluated in four contexts (set --, command argument, for list, array literal) under five IFS settings and three shapes of $HOME (plain, containing a blank, containing a glob character) against a fixed tree; argument count, order and contents compared with bash via a length-prefixed dump. Exploration.",
         "whitespace IFS only (stated domain); bash 5.2.15 reference; a literal `:` directly after a tilde prefix is kept out of the generated words (bash's own rule there depends on quoting later in the word)", "DESIGN.md §3 C05 (design) and §8 (as built)"),
})

CHECKS.update({
 "C06": ("grammar-based property testing of (value, operator, operand) triples, differential oracle vs bash 5.2.15; prefix/suffix removal additionally against the harness's reference matcher",
         "4k (quick) / 60k (thorough) generated batches of 8-14 parameter expansions over scalars, positional parameters, indexed (dense and sparse) and associative arrays, unset/null/declared-unset variables, every operator family of the statement, quoted and unquoted, with and without nounset; output, exit status and stderr emptiness compared with bash; ${v#p} ${v##p} ${v%p} ${v%%p} with literal patterns also checked against the property's own definition. Exploration.",
         "bash 5.2.15 reference; kept out of the generated domain because bash itself is irregular there: patterns that can match the empty string in ${p/pat/rep}, negative lengths on arrays/positional parameters, ${@@A}/${a[@]@A}, @Q/@A text of values containing single quotes (round-trip is C13's subject), locale-dependent classes on non-ASCII values", "DESIGN.md §3 C06 (design) and §8 (as built)"),
})

CHECKS.update({
 "C09": ("history-style property testing: generated action sequences with a state probe after every step, differential oracle vs bash 5.2.15, plus a readonly invariant over the trace",
         "6k (quick) / 80k (thorough) generated programs of declare/local/export/readonly/unset/assignment/+=/element assignment/for/read/printf -v/(( ))/${v:=}/getopts/mapfile actions with function calls to depth 3 and temporary-assignment prefixes on builtins, eval, functions and an external child; `declare -p` of all tracked names and the child's environment compared with bash after every action; a tail of writer attacks on a readonly name checked against the invariant that its declare line never changes. Exploration.",
         "bash 5.2.15 reference; temporary assignments are placed on reader functions only and readonly attacks run at top level only (what a callee that writes a temporarily assigned or readonly name leaves behind, and how far a failed assignment unwinds, differ between bash modes); -l with -u never combined", "DESIGN.md §3 C09 (design) and §8 (as built)"),
})

CHECKS.update({
 "C10": ("grammar-based property testing of redirection lists and here-documents with an external descriptor probe, differential oracle vs bash 5.2.15",
         "2.5k (quick) / 50k (thorough) programs of 2-5 commands, each one of 11 carrier kinds with 1-4 redirections over all operators and descriptors 0-9, with/without noclobber, probed from an external process inside and after the command; 2k/40k here-document cases (near-miss delimiter lines, tabs, expansions, delimiter forms, several per line, in substitutions/functions/loops/pipelines). stdout, tagged stderr lines, status and every file compared with bash. Exploration.",
         "bash 5.2.15 reference; diagnostics are not compared, and a file that received a diagnostic (because stderr was redirected into it) is not compared; byte offsets are not compared; N>&N on a closed N and `<<-` bodies with backslash-continued lines are kept out", "DESIGN.md §3 C10 (design) and §8 (as built)"),
})

CHECKS.update({
 "C16": ("grammar-based property testing over termination paths x contexts x trap histories x handler kinds x front-ends; differential oracle vs bash 5.2.15 plus an exactly-once/last-line/status invariant on brush's own output",
         "3k (quick) / 60k (thorough) generated programs from the control-flow grammar with EXIT-trap manipulations and terminating leaves at arbitrary positions, delivered as file, -c and stdin; stdout and status compared with bash, and the plain handler's marker line checked to appear at most once, last, with the process status. 1.5k/30k ERR-handler programs probing $? after every command. Exploration.",
         "bash 5.2.15 reference; status after an expansion error compared zero/non-zero (5.2 uses 127); EXIT traps manipulated inside subshells are outside the statement; a syntax error inside eval ends a non-interactive brush (POSIX behaviour) while bash continues - that leaf is not generated", "DESIGN.md §3 C16 (design) and §8 (as built)"),
})

CHECKS.update({
 "C18": ("metamorphic property testing (brush against itself): a generated command sequence with fault leaves is run N times in one process; resource probes and per-iteration output after N runs must equal those after 1",
         "2.5k (quick) / 30k (thorough) sequences from the control-flow grammar with ~50 fault and resource leaves (failing redirects on every carrier, unknown commands, readonly and temporary assignments, failing functions/sourced files/recursion, process substitutions, background jobs, exec redirections), run 2..50 (quick) / 500 (thorough) times as repeated text, function body, eval or source; open descriptors and zombies read from /proc by an external helper, ${#FUNCNAME[@]}, ${#BASH_SOURCE[@]}, $#, temp-variable visibility, directory stack, `local` failing at top level, and every iteration's stdout/stderr compared with the first. Exploration.",
         "a failure is reported only when bash satisfies the same relation on the same script and the failure reproduces in a second run; counts are sampled until stable", "DESIGN.md §3 C18 (design) and §8 (as built)"),
})

CHECKS.update({
 "C15": ("metamorphic property testing over delivery modes (brush against itself, guarded by bash), differential testing of stdin prefixes vs bash 5.2.15, and in-process sequence testing of the parse caches against history-free references",
         "1.5k (quick) / 25k (thorough) multi-line programs (continuations, here-documents, multi-line strings, comments, blank lines, $LINENO probes incl. inside eval and $( )) each delivered as file, -c, source, eval and stdin and required to give one stdout/status; 3k/50k line-prefixes of such programs fed on stdin from a file or a pipe (with commands that read the script's own input) compared with bash on what ran and success/failure; 40k/600k sequences of memoised tokenizer/program/word/arithmetic/pattern calls re-issuing texts under other option sets in one long-lived multi-threaded process, each result compared with its uncached twin or with a table from fresh processes. Exploration.",
         "bash 5.2.15 reference; the delivery relation is asserted only for texts that bash -n accepts and for which bash itself prints the same for all five deliveries; top-level `return` is not generated (it legitimately differs between file and source); here-documents inside $( ) are kept out (bash 5.2 re-parses them wrongly)", "DESIGN.md §3 C15 (design) and §8 (as built)"),
})

CHECKS.update({
 "C12": ("metamorphic property testing (brush against itself, bash as a validity guard): full parent-state dump before and after a generated mutator sequence runs in a subshell context must be equal",
         "5k (quick) / 80k (thorough) sequences of 1-6 state mutators out of ~70 (every kind of assignment, unset/export/readonly, functions, set/shopt, aliases, traps, cd/pushd, positional parameters, exec redirections, exit/return/break/continue, completion specs; rarely umask/ulimit) in 18 subshell contexts (( ), $( ), backquotes, pipeline stages as a group and one mutator per stage, background job as a group and one per mutator, <( ), >( ), coproc, function in ( ), nested, and the same inside parent loops), optionally with concurrent parent activity; declare -p/-f, $-, set -o, shopt, alias, trap -p, pwd, dirs, umask, ulimit -a, $@, complete -p and an external child's view of descriptors, umask, rlimits, cwd and environment compared before/after, and the parent's own marker commands must all run. Exploration.",
         "bash 5.2.15 used as a guard only: a failure is reported only when bash keeps its own dumps equal on the same script; names the shell itself changes (RANDOM, _, PIPESTATUS, BASH_CMDS ...) are filtered from the dump", "DESIGN.md §3 C12 (design) and §8 (as built)"),
})

CHECKS.update({
 "C13": ("round-trip property testing: brush prints each value in 14 quoting forms, brush and bash eval the text, and the recreated value/keys/attributes must equal the original; exhaustive over short strings plus random long ones",
         "all strings up to length 2 (quick, 1641) / 3 (thorough, 65641) over a 40-character alphabet of quoting-relevant characters plus 4k/60k random strings of 1-30 pieces (characters of the alphabet, other printable and control characters, and syntax-shaped pieces such as `{,}`, `~/`, `a=b`, `$(x)`), each through printf %q (bare and in a longer format), ${v@Q}, ${v@A}, declare -p (scalar, exported, sparse indexed array, associative key and element), set, export -p, alias, trap -p, xtrace of an argument and of an assignment; read back by brush and by bash 5.2.15 and compared byte-wise (alias/trap: the reader's listing after eval vs after defining the original directly). Exhaustive up to the bound, exploration beyond.",
         "a mismatch counts only if the same form and value round-trips with bash on both sides; values are valid UTF-8 without NUL; bash 5.2.15 is the second reader", "DESIGN.md §3 C13 (design) and §8 (as built)"),
})

CHECKS.update({
 "C11": ("property testing over generated pipelines with forced stage-start schedules (feature-gated pause points); differential oracle vs bash 5.2.15 on the data that arrives (length + checksum), PIPESTATUS and $?, with a three-strikes hang policy",
         "4k (quick) / 40k (thorough) pipelines of 2-4 stages over 6 producer, 8 filter and 9 consumer kinds (externals, brace groups, subshells, functions, while-read loops, early-exit consumers), payloads 0 B .. 1 MiB (quick) / 4 MiB (thorough) incl. 65535/65536/65537, forced exit statuses, pipefail, 7 pause-point schedules; $( ) around pipelines with trailing-newline variants; several reads sharing one descriptor. Exploration.",
         "bash 5.2.15 reference; with an early-exit consumer only the consumer's output and $? are compared and pipefail is off (upstream statuses are timing-dependent in bash too); a hang counts only when bash needed < 1/20 of the 8 s limit and brush exceeded it three times (else inconclusive)", "DESIGN.md §3 C11 (design) and §8 (as built)"),
})

CHECKS.update({
 "C17": ("history-style property testing: generated sequences of job launches, foreground commands, sleeps, `jobs` queries and waits, run on 1/2/all CPUs with pause-point schedules; invariants over the observed history (happens-before of job effects vs the line after wait, exactly-once effects, distinct job numbers)",
         "2.5k (quick) / 40k (thorough) histories of up to 12 operations with 1-8 jobs of 6 kinds (external, brace group, pipeline, subshell, function, if) launched from top level, function, loop or group, durations from {0,10,30,60,120} ms so that finishing orders vary, waits of three kinds, final wait; every invariant checked on brush, and on bash when brush fails one (it must hold there). Exploration.",
         "durations are real sleeps; invariants are timing-independent; bash 5.2.15 used as a guard only", "DESIGN.md §3 C17 (design) and §8 (as built)"),
})

CHECKS.update({
 "C01": ("fuzz-style property testing with a crash/hang oracle: boundary-value command templates, deep nesting, and mutants of the repository's own test scripts executed by brush (unprivileged, sandboxed); exhaustive short strings, fragment concatenations and corpus mutants through the library entry points in process",
         "20k (quick) / 400k (thorough) template and nesting cases and 3k/120k corpus mutants executed; in process every string up to length 3 (quick, 30.8k) / 4 (thorough, 954k) over a 31-character metacharacter alphabet, 40k/1.5M fragment lines, 20k/600k corpus mutants, 12k/300k templates through tokenizer (4 option sets), program parser and printer, word/brace/here-document/arithmetic/pattern/prompt/test/key-binding parsers and pattern matching, 4k/100k lines through the completion entry point at a spread of cursor positions. Oracle: no panic, abort, fatal signal or worker death; no in-process call over 4 s; no hang where bash ends within 1.5 s and brush twice exceeds 12 s. Exhaustive up to the length bound, exploration beyond.",
         "texts naming commands or paths outside the sandbox's allow-list are not executed; a stack overflow counts only if bash survives the same text (unbounded recursion kills bash too); syntax highlighting is C19's subject; nesting depth 64 is reached by templates and by the repeat-64 mutation", "DESIGN.md §3 C01 (design) and §8 (as built)"),
})

NOT_YET = {}

def hooks():
    log = subprocess.run(["git", "-C", "/repo", "log", "--format=%H %s"], capture_output=True, text=True).stdout
    return [l.split()[0] for l in log.splitlines() if l.split(" ", 1)[1].startswith("verif hooks")]

m = {
 "version": 1,
 "setup_cmd": "./setup.sh",
 "hooks": {
   "guard": "cargo feature `verif-hooks` (brush-core, passed through by brush-shell); default off",
   "enable": "cargo build -p brush-shell --features verif-hooks (CARGO_TARGET_DIR=/verif/target/repo); pause points read BRUSH_VERIF_PAUSES=point=ms,…",
   "baseline_off_cmd": "/verif/tools/baseline.sh",
   "source_commits": hooks(),
   "add_only": True,
 },
 "engines": [
   {"name": "bvengine", "path": "engine/", "serves_properties": sorted(CHECKS), "kind_free_text": "process-level property-based testing: proptest generators, sandboxed brush/bash runs, differential / model / metamorphic oracles, shrinking, replay"},
   {"name": "bvinproc", "path": "inproc/", "serves_properties": [p for p in sorted(CHECKS) if p in ("C01","C07","C08","C14","C15","C19","C20")], "kind_free_text": "in-process property-based testing against the /repo crates (tokenizer, parsers, parse caches, patterns, arithmetic, printer, highlighter, completion, history)"},
 ],
 "checks": [],
 "not_applicable": [],
 "notes": "Known findings: /verif/known_findings.json (read-only at run time). Exit 2 = could not decide (build failure, oracle disagreement, degenerate generator), never a violation.",
}
for pid in ALL:
    if pid in CHECKS:
        tech, text, note, ref = CHECKS[pid]
        m["checks"].append({
          "property_id": pid,
          "quick_cmd": f"./check {pid} quick",
          "thorough_cmd": f"./check {pid} thorough",
          "evidence_file": f"/verif/evidence/{pid}.json",
          "replay_cmd_template": f"./check {pid} --replay {{path}}",
          "engine": "bvengine",
          "level_claimed": {"category": "exploration", "text": text, "design_ref": ref},
          "level_note": note,
          "technique": tech,
        })
    else:
        m["not_applicable"].append({"property_id": pid, "reason": NOT_YET.get(pid, "check not built yet in this revision (property-based testing applies; see DESIGN.md §3); not claimed until its quick tier is silent on the unchanged tree")})
json.dump(m, open("/verif/MANIFEST.json", "w"), indent=1)
print("claimed:", sorted(CHECKS))

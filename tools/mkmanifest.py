#!/usr/bin/env python3
"""Regenerates /verif/MANIFEST.json from the table below (single source of truth for the interface)."""
import json, subprocess

ALL = [f"C{i:02d}" for i in range(1, 21)]

# id -> (technique, level text, level_note, design_ref)
CHECKS = {
 "C02": ("grammar-based property testing (proptest strategies over a typed control-flow AST, structural shrinking), differential oracle vs bash 5.2.15",
         "Generated-program search: thousands of distinct programs from the control-flow grammar (quick) / tens of thousands at greater depth (thorough), each run under brush and bash in identical sandboxes; stdout trace of marker leaves and $? probes plus exit status compared exactly. Exploration, not proof: holds on the programs generated.",
         "bash 5.2.15 is the reference for 'bash'; statuses limited to {0,1,2,77,255}; programs in listed known-finding classes are counted and skipped", "DESIGN.md §3 C02"),
}

NOT_YET = {}

def hooks():
    log = subprocess.run(["git", "-C", "/repo", "log", "--format=%H %s"], capture_output=True, text=True).stdout
    return [l.split()[0] for l in log.splitlines() if l.split(" ", 1)[1].startswith("verif hooks")]

m = {
 "version": 1,
 "setup_cmd": "./setup.sh",
 "hooks": {
   "guard": "cargo feature `verif-hooks` (brush-core, passed through by brush-shell); default off",
   "enable": "cargo build -p brush-shell --features verif-hooks (CARGO_TARGET_DIR=/verif/target/repo); pause points read BRUSH_VERIF_PAUSES=point=ms,…",
   "baseline_off_cmd": "/verif/tools/baseline.sh",
   "source_commits": hooks(),
   "add_only": True,
 },
 "engines": [
   {"name": "bvengine", "path": "engine/", "serves_properties": sorted(CHECKS), "kind_free_text": "process-level property-based testing: proptest generators, sandboxed brush/bash runs, differential / model / metamorphic oracles, shrinking, replay"},
   {"name": "bvinproc", "path": "inproc/", "serves_properties": [p for p in sorted(CHECKS) if p in ("C01","C07","C08","C12","C14","C15","C18","C19","C20")], "kind_free_text": "in-process property-based testing against the /repo crates (parser, patterns, arithmetic, highlighter, history)"},
 ],
 "checks": [],
 "not_applicable": [],
 "notes": "Known findings: /verif/known_findings.json (read-only at run time). Exit 2 = could not decide (build failure, oracle disagreement, degenerate generator), never a violation.",
}
for pid in ALL:
    if pid in CHECKS:
        tech, text, note, ref = CHECKS[pid]
        m["checks"].append({
          "property_id": pid,
          "quick_cmd": f"./check {pid} quick",
          "thorough_cmd": f"./check {pid} thorough",
          "evidence_file": f"/verif/evidence/{pid}.json",
          "replay_cmd_template": f"./check {pid} --replay {{path}}",
          "engine": "bvengine",
          "level_claimed": {"category": "exploration", "text": text, "design_ref": ref},
          "level_note": note,
          "technique": tech,
        })
    else:
        m["not_applicable"].append({"property_id": pid, "reason": NOT_YET.get(pid, "check not built yet in this revision (property-based testing applies; see DESIGN.md §3); not claimed until its quick tier is silent on the unchanged tree")})
json.dump(m, open("/verif/MANIFEST.json", "w"), indent=1)
print("claimed:", sorted(CHECKS))

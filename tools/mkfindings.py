#!/usr/bin/env python3
"""Writes known_findings.txt, a line-per-entry rendering of known_findings.json (the file the checks read)."""
import json
k = json.load(open('/verif/known_findings.json'))
lines = ["# generated from known_findings.json by tools/mkfindings.py; the checks read the JSON file, never write either",
         "# known:  a genuine defect of reubeno/brush that is listed rather than repaired (the check prints KNOWN-FINDING and exits 0 for it)",
         "# fixed:  a genuine defect repaired by the named `fix:` commit in /repo (suppresses nothing; its replay must pass)", ""]
for e in k['findings']:
    if e['status'] == 'known':
        lines.append(f"known: property={e['property']} id={e['id']} replay={e['replay']} class={e.get('class','')} :: {e['what']}")
for e in k['findings']:
    if e['status'] == 'fixed':
        lines.append(f"fixed: property={e['property']} {e.get('commit','')} {e['what']} (id={e['id']} replay={e['replay']})")
open('/verif/known_findings.txt', 'w').write("\n".join(lines) + "\n")
print(len([e for e in k['findings'] if e['status']=='known']), "known,", len([e for e in k['findings'] if e['status']=='fixed']), "fixed")

#!/bin/bash
# Runs the repository's pinned baseline suite with the verif-hooks feature OFF and compares
# with /root/.vp/BASELINE.json: every test in stable_pass must pass.
cd /repo || exit 2
LOG=${1:-/tmp/bv-baseline.log}
cargo nextest run --workspace --no-fail-fast --tool-config-file pb:/w/lib/nextest.toml --profile pb --test-threads 8 --offline > "$LOG" 2>&1
python3 - "$LOG" <<'PY'
import json,re,sys
log=open(sys.argv[1]).read()
base=json.load(open('/root/.vp/BASELINE.json'))
stable=set(base['stable_pass'])
fails=set()
for m in re.finditer(r'^\s*(?:FAIL|SIGABRT|SIGSEGV|TIMEOUT|LEAK-FAIL|FLAKY-FAIL)\s+\[[^\]]*\]\s+(?:\([^)]*\)\s+)?(\S+)\s+(.*)$',log,re.M):
    fails.add((m.group(1),m.group(2).strip()))
summ=re.findall(r'Summary.*',log)
print(summ[-1] if summ else 'no summary')
bad=[]
for b,t in fails:
    for cand in (f"{b}::{t}", f"{b}::{t}".replace('brush-shell::',''), t):
        if cand in stable: bad.append(cand)
names=set()
print("failing:",len(fails))
if bad:
    print("STABLE TESTS FAILING:"); [print("  ",x) for x in sorted(set(bad))]; sys.exit(1)
print("baseline OK: no stable_pass test fails")
PY

#!/bin/bash
# tools/seedtest.sh <seed-dir-name> <check-id>...   — apply /verif/seeded/<name>/patch.diff to /repo, run the
# demo and the listed quick checks, record what happened in seeded/<name>/result.txt, undo the patch.
name=$1; shift
d=/verif/seeded/$name
[ -f "$d/patch.diff" ] || { echo "no patch in $d"; exit 2; }
cd /verif
if [ -n "$(git -C /repo status --short)" ]; then echo "/repo is not clean"; exit 2; fi
out=$d/result.txt
{
echo "== seeded change $name, $(date -u +%FT%TZ), /repo HEAD $(git -C /repo rev-parse --short HEAD)"
echo "-- demo on the unchanged tree (expected exit 0)"
(cd /repo && CARGO_TARGET_DIR=/verif/target/repo cargo build -p brush-shell --features verif-hooks --offline >/dev/null 2>&1)
timeout 120 bash $d/demo.sh /verif/target/repo/debug/brush >/dev/null 2>&1; echo "demo exit=$?"
git -C /repo apply $d/patch.diff || { echo "patch does not apply"; exit 2; }
(cd /repo && CARGO_TARGET_DIR=/verif/target/repo cargo build -p brush-shell --features verif-hooks --offline >/dev/null 2>&1) || echo "BUILD FAILED with patch"
echo "-- demo with the change (expected exit != 0)"
timeout 120 bash $d/demo.sh /verif/target/repo/debug/brush >/dev/null 2>&1; echo "demo exit=$?"
for c in "$@"; do
  echo "-- ./check $c quick with the change"
  timeout 1800 ./check $c quick > /tmp/seed_${name}_$c.log 2>&1; code=$?
  echo "exit=$code"
  grep -A4 "^VIOLATION" /tmp/seed_${name}_$c.log | cut -c1-400 | head -24
  tail -1 /tmp/seed_${name}_$c.log | cut -c1-300
done
} 2>&1 | tee $out
git -C /repo checkout -- . ; git -C /repo status --short
(cd /repo && CARGO_TARGET_DIR=/verif/target/repo cargo build -p brush-shell --features verif-hooks --offline >/dev/null 2>&1)
# failures found against a seeded change are not regressions of the unchanged tree: drop their replay files
git -C /verif status --short replays | grep '^??' | awk '{print $2}' | grep 'fail-' | xargs -r rm -f

#!/usr/bin/env python3
"""Regenerates the per-property size table of DESIGN.md §8.3 from evidence/*.json (between the markers)."""
import json, re, glob
rows = []
for i in range(1, 21):
    pid = f"C{i:02d}"
    try:
        e = json.load(open(f"/verif/evidence/{pid}.json"))
    except Exception:
        rows.append(f"| {pid} | (no evidence file) | | | |")
        continue
    cov = e["coverage"]
    layers = cov.get("layers", {})
    lt = "; ".join(f"{n} {v['evaluations']}" for n, v in layers.items())
    rows.append(f"| {pid} | {lt} | {cov['evaluations']} | {cov['distinct_nontrivial']} | {e['wall_s']:.0f} s |")
table = "| id | layers: evaluations | evaluations | distinct non-trivial | wall |\n|---|---|---|---|---|\n" + "\n".join(rows)
p = "/verif/DESIGN.md"
s = open(p).read()
a, b = "<!-- table:begin -->", "<!-- table:end -->"
if a in s:
    s = s[: s.index(a) + len(a)] + "\n" + table + "\n" + s[s.index(b):]
    open(p, "w").write(s)
    print("table updated")
else:
    print("markers not found")

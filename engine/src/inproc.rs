//! Orchestration of the in-process worker (bvinproc): run its layers, attribute crashes and
//! hangs of the worker to the announced case, restart past them.

use bvcommon::report::PropRun;
use bvcommon::runner::{hash_str, Ctx, Failure, LayerReport, Outcome, Verdict};
use std::io::Read;
use std::os::unix::process::ExitStatusExt;
use std::path::PathBuf;
use std::process::{Command, Stdio};
use std::time::{Duration, Instant};

fn worker_bin() -> Option<PathBuf> {
    match std::env::var("BVERIF_INPROC") {
        Ok(s) if !s.is_empty() => Some(PathBuf::from(s)),
        Ok(_) => None,
        Err(_) => {
            let p = bvcommon::exec::verif_root().join("target/harness/debug/bvinproc");
            if p.exists() {
                Some(p)
            } else {
                None
            }
        }
    }
}

fn scratch() -> PathBuf {
    use std::os::unix::fs::PermissionsExt;
    let base = PathBuf::from(format!("/dev/shm/bverif.{}", std::process::id()));
    let p = base.join("inproc");
    let _ = std::fs::create_dir_all(&p);
    // the C01 worker runs as an unprivileged user
    let _ = std::fs::set_permissions(&base, std::fs::Permissions::from_mode(0o777));
    let _ = std::fs::set_permissions(&p, std::fs::Permissions::from_mode(0o777));
    p
}

/// C01 feeds arbitrary text to the completion entry point, which may expand it: that worker runs as
/// uid/gid 65534 so that nothing outside its scratch directory is writable for it
fn drop_privileges_for(prop: &str, cmd: &mut Command) {
    if prop == "C01" {
        use std::os::unix::process::CommandExt;
        cmd.current_dir(scratch());
        cmd.env("HOME", scratch());
        cmd.env("TMPDIR", scratch());
        unsafe {
            cmd.pre_exec(|| {
                libc::setgroups(0, std::ptr::null());
                libc::setgid(65534);
                libc::setuid(65534);
                Ok(())
            });
        }
    }
}

struct Finished {
    stdout: Vec<u8>,
    stderr: Vec<u8>,
    ok: bool,
    signal: Option<i32>,
    timed_out: bool,
}

fn run_with_deadline(mut cmd: Command, deadline: Duration) -> Finished {
    let dir = scratch();
    let id = hash_str(&format!("{:?}{:?}", cmd, Instant::now()));
    let out_p = dir.join(format!("out.{id:x}"));
    let err_p = dir.join(format!("err.{id:x}"));
    cmd.stdin(Stdio::null());
    cmd.stdout(Stdio::from(std::fs::File::create(&out_p).unwrap()));
    cmd.stderr(Stdio::from(std::fs::File::create(&err_p).unwrap()));
    let start = Instant::now();
    let mut child = match cmd.spawn() {
        Ok(c) => c,
        Err(e) => {
            return Finished { stdout: vec![], stderr: format!("spawn failed: {e}").into_bytes(), ok: false, signal: None, timed_out: false }
        }
    };
    let mut timed_out = false;
    let status = loop {
        match child.try_wait() {
            Ok(Some(s)) => break Some(s),
            Ok(None) => {
                if start.elapsed() > deadline {
                    let _ = child.kill();
                    timed_out = true;
                    break child.wait().ok();
                }
                std::thread::sleep(Duration::from_millis(5));
            }
            Err(_) => break None,
        }
    };
    let rd = |p: &PathBuf| {
        let mut b = Vec::new();
        if let Ok(mut f) = std::fs::File::open(p) {
            let _ = f.read_to_end(&mut b);
        }
        let _ = std::fs::remove_file(p);
        b
    };
    let stdout = rd(&out_p);
    let stderr = rd(&err_p);
    let (ok, signal) = match status {
        Some(s) => (s.success() && !timed_out, s.signal()),
        None => (false, None),
    };
    Finished { stdout, stderr, ok, signal, timed_out }
}

/// Replay one case in a fresh worker process.
pub fn replay_inproc(prop: &str, layer: &str, case: &serde_json::Value) -> Result<(String, Verdict), String> {
    replay_inproc_deadline(prop, layer, case, Duration::from_secs(60))
}

pub fn replay_inproc_deadline(prop: &str, layer: &str, case: &serde_json::Value, deadline: Duration) -> Result<(String, Verdict), String> {
    let bin = worker_bin().ok_or_else(|| "in-process worker is not built".to_string())?;
    let f = scratch().join(format!("case.{:x}.json", hash_str(&format!("{case}{layer}"))));
    std::fs::write(&f, case.to_string()).map_err(|e| e.to_string())?;
    let mut cmd = Command::new(bin);
    cmd.arg(prop).arg("--replay").arg(layer).arg(&f);
    cmd.env_remove("BVERIF_ANNOUNCE");
    drop_privileges_for(prop, &mut cmd);
    let fin = run_with_deadline(cmd, deadline);
    let _ = std::fs::remove_file(&f);
    let rendered_fallback = bvcommon::exec::trunc(&case.to_string(), 2000);
    if fin.timed_out {
        return Ok((rendered_fallback, Verdict::fail(format!("in-process call did not return within {} s (hang)", deadline.as_secs()))));
    }
    if let Some(sig) = fin.signal {
        let err = String::from_utf8_lossy(&fin.stderr).into_owned();
        return Ok((rendered_fallback, Verdict::fail(format!("worker killed by signal {sig} on this case (abort / stack overflow): {}", bvcommon::exec::trunc(&err, 300)))));
    }
    if !fin.ok {
        return Err(format!("worker replay failed: {}", String::from_utf8_lossy(&fin.stderr)));
    }
    let v: serde_json::Value = serde_json::from_slice(&fin.stdout).map_err(|e| format!("bad worker output: {e}"))?;
    let rendered = v["rendered"].as_str().unwrap_or("").to_string();
    let detail = v["detail"].as_str().unwrap_or("").to_string();
    let mut verdict = match v["outcome"].as_str().unwrap_or("") {
        "pass" => Verdict::pass(true),
        "fail" => Verdict::fail(detail),
        "skip" => Verdict::skip(detail),
        _ => Verdict::inconclusive(detail),
    };
    if !v["sample"].is_null() {
        verdict.sample = Some(v["sample"].clone());
    }
    Ok((rendered, verdict))
}

/// Run all in-process layers of a property; crashes of the worker are attributed and skipped.
pub fn run_inproc(prop: &str, ctx: &Ctx, run: &mut PropRun) {
    let Some(bin) = worker_bin() else {
        run.fatal = Some("in-process worker (bvinproc) could not be built against /repo's current sources".into());
        return;
    };
    let announce = scratch().join("announce");
    let budget = Duration::from_secs(ctx.tier.pick(480, 6 * 3600));
    let mut skip: Vec<u64> = vec![];
    let mut crash_failures: Vec<Failure> = vec![];
    for _attempt in 0..4 {
        let _ = std::fs::remove_dir_all(&announce);
        let _ = std::fs::create_dir_all(&announce);
        {
            use std::os::unix::fs::PermissionsExt;
            let _ = std::fs::set_permissions(&announce, std::fs::Permissions::from_mode(0o777));
        }
        let mut cmd = Command::new(&bin);
        cmd.arg(prop).arg(ctx.tier.name()).arg(ctx.seed.to_string());
        cmd.env("BVERIF_ANNOUNCE", &announce);
        cmd.env("BVERIF_ACTIVE_CLASSES", ctx.active_classes.iter().cloned().collect::<Vec<_>>().join(","));
        cmd.env("BVERIF_SKIP_HASHES", skip.iter().map(|h| h.to_string()).collect::<Vec<_>>().join(","));
        drop_privileges_for(prop, &mut cmd);
        let fin = run_with_deadline(cmd, budget);
        if fin.ok {
            match serde_json::from_slice::<Vec<LayerReport>>(&fin.stdout) {
                Ok(reps) => {
                    for r in reps {
                        run.add(r);
                    }
                    break;
                }
                Err(e) => {
                    run.fatal = Some(format!("cannot parse worker output: {e}"));
                    break;
                }
            }
        }
        // worker died or hung: find the culprit among the announced cases
        let mut culprits = 0;
        if let Ok(rd) = std::fs::read_dir(&announce) {
            for e in rd.flatten() {
                let Ok(text) = std::fs::read_to_string(e.path()) else { continue };
                let Ok(v) = serde_json::from_str::<serde_json::Value>(&text) else { continue };
                let layer = v["layer"].as_str().unwrap_or("").to_string();
                let case = v["case"].clone();
                match replay_inproc_deadline(prop, &layer, &case, Duration::from_secs(30)) {
                    Ok((rendered, verdict)) => {
                        if let Outcome::Fail(d) = verdict.outcome {
                            culprits += 1;
                            // the skip key is the layer's rendering; a dead worker cannot tell us, so
                            // layers render crash-prone cases as their plain text (C01/C19 do)
                            let key = case.get("text").and_then(|t| t.as_str()).map(|s| s.to_string()).unwrap_or(rendered.clone());
                            skip.push(hash_str(&key));
                            crash_failures.push(Failure { layer, case, rendered: key, detail: d, shrink_steps: 0 });
                        }
                    }
                    Err(e) => {
                        run.notes.push(format!("attribution replay failed: {e}"));
                    }
                }
            }
        }
        if culprits == 0 {
            run.fatal = Some(format!(
                "in-process worker died (signal {:?}, timed out {}) and no announced case reproduces it: {}",
                fin.signal,
                fin.timed_out,
                bvcommon::exec::trunc(&String::from_utf8_lossy(&fin.stderr), 400)
            ));
            break;
        }
        if crash_failures.len() >= ctx.max_failures {
            break;
        }
    }
    if !crash_failures.is_empty() {
        let mut rep = LayerReport { name: "worker-crash".into(), ..Default::default() };
        rep.generated = crash_failures.len() as u64;
        rep.evaluations = crash_failures.len() as u64;
        rep.failures = crash_failures;
        run.add(rep);
    }
    let _ = std::fs::remove_dir_all(&announce);
}

//! C03 — errexit, nounset, pipefail stop the shell exactly where bash does (differential).

use crate::util::pair_sample;
use bvcommon::diff::{judge, DiffCfg};
use bvcommon::exec::CaseSpec;
use bvcommon::prog::{prog_strategy, GenCfg, Prog, PROLOGUE, SENTINEL};
use bvcommon::report::PropRun;
use bvcommon::runner::{check_floors, explore, replay_case, Ctx, Layer, Verdict};
use proptest::prelude::*;
use serde::{Deserialize, Serialize};

#[derive(Clone, Debug, Serialize, Deserialize)]
pub struct Case {
    pub prog: Prog,
    /// command-line flags: subset of -e -u "-o pipefail"
    pub flags: Vec<String>,
    /// initial option lines placed at the top of the script (after the prologue)
    pub init: Vec<String>,
    pub err_trap: bool,
}

pub const OPTION_LEAVES: &[&str] = &[
    "set -e",
    "set +e",
    "set -u",
    "set +u",
    "set -o pipefail",
    "set +o pipefail",
    "shopt -s inherit_errexit",
    "shopt -u inherit_errexit",
    "set -E",
    "set +E",
];

pub const NOUNSET_LEAVES: &[&str] = &[
    "echo \"x:$u\"",
    "echo \"x:${u}\"",
    "echo \"x:${u-}\"",
    "echo \"x:${u:-d}\"",
    "echo \"x:${u+x}\"",
    ": ${u2:=d}",
    "echo \"x:${#u}\"",
    "echo \"x:${ua[0]}\"",
    "echo \"x:${ua[@]}\"",
    "echo \"x:$1\"",
    "echo \"x:$3\"",
    "echo \"x:$@\"",
    "echo \"x:$*\"",
    "echo \"x:$#\"",
    "echo \"x:${ea[@]}\"",
    "echo \"x:${ea[0]}\"",
    "echo \"x:$((u))\"",
    "echo \"x:${u:0:1}\"",
    "echo \"x:${u%x}\"",
    "echo \"x:${s}\"",
    "echo \"x:${n}\"",
    "echo \"x:${du}\"",
    "echo \"x:${sa[1]}\"",
    "echo \"x:${sa[5]}\"",
    "false",
    "true",
    "sv=$(t 7 1)",
    "echo \"s:$(t 8 1)\"",
    // the reader drains the pipe first: whether a writer meets a closed pipe depends on timing (in bash too)
    "t 9 1 | { cat >/dev/null; t 10 0; }",
    "t 11 0 | { cat >/dev/null; t 12 2; }",
];

const VARS: &str = "s=set; n=; declare du; ea=(); sa=(p q)\n";

impl Case {
    pub fn script(&self) -> String {
        let mut s = String::from(PROLOGUE);
        s.push_str(VARS);
        if self.err_trap {
            s.push_str("trap 'echo ERR' ERR\n");
        }
        for l in &self.init {
            s.push_str(l);
            s.push('\n');
        }
        s.push_str(&self.prog.render_body());
        s.push_str(&format!("echo \"{SENTINEL}:$?\"\n"));
        s
    }
    pub fn render(&self) -> String {
        format!(
            "# flags: {:?}\n{}{}{}",
            self.flags,
            if self.err_trap { "trap 'echo ERR' ERR\n" } else { "" },
            self.init.iter().map(|l| format!("{l}\n")).collect::<String>(),
            self.prog.render_body()
        )
    }
}

pub struct Diff;

fn labels(c: &Case) -> (Vec<String>, bool) {
    let text = c.render();
    let f = c.prog.facts();
    let mut l = vec![];
    let e = c.flags.iter().any(|x| x == "-e") || text.contains("set -e");
    let u = c.flags.iter().any(|x| x == "-u") || text.contains("set -u");
    let pf = text.contains("pipefail");
    if e {
        l.push("errexit".to_string());
    }
    if u {
        l.push("nounset".to_string());
    }
    if pf {
        l.push("pipefail".to_string());
    }
    if text.contains("inherit_errexit") {
        l.push("inherit_errexit".into());
    }
    if text.contains("set -E") {
        l.push("errtrace".into());
    }
    if c.err_trap {
        l.push("err-trap".into());
    }
    for k in ["if", "elif", "while", "until", "andor", "not", "pipe", "subst", "eval", "subshell", "call", "brace"] {
        if f.kinds.contains(k) {
            l.push(format!("{}{k}", if e { "e+" } else { "kind:" }));
        }
    }
    let nontrivial = (e || u) && f.max_depth >= 1;
    (l, nontrivial)
}

impl Layer for Diff {
    type Case = Case;
    fn name(&self) -> String {
        "diff".into()
    }
    fn classes(&self, c: &Case) -> Vec<String> {
        let mut cl = crate::c02::classes(&c.prog);
        cl.extend(extra_classes(c));
        cl
    }
    fn render(&self, c: &Case) -> String {
        c.render()
    }
    fn shrink_candidates(&self, c: &Case) -> Vec<Case> {
        let mut out = vec![];
        if c.err_trap {
            out.push(Case { err_trap: false, ..c.clone() });
        }
        for i in 0..c.flags.len() {
            let mut n = c.clone();
            n.flags.remove(i);
            out.push(n);
        }
        for i in 0..c.init.len() {
            let mut n = c.clone();
            n.init.remove(i);
            out.push(n);
        }
        for p in c.prog.shrink_candidates() {
            out.push(Case { prog: p, ..c.clone() });
        }
        out
    }
    fn eval(&self, c: &Case) -> Verdict {
        let spec = CaseSpec { script: c.script(), args: vec!["A1".into()], flags: c.flags.clone(), timeout_ms: 10_000, ..Default::default() };
        // first pass: exact exit status; expansion errors (unbound variable) compare zero/non-zero only
        let (mut outcome, pair) = judge(&spec, &DiffCfg::default());
        if let bvcommon::runner::Outcome::Fail(_) = &outcome {
            let be = pair.bash.err_lossy();
            if be.contains("unbound variable") && pair.bash.stdout == pair.brush.stdout && !pair.brush.status.zero() && !pair.brush.panicked() {
                outcome = bvcommon::runner::Outcome::Pass;
            }
            // bash quirk: when errexit is switched ON inside a `!` pipeline (directly or in a function called
            // from one), bash exits at the next failing command although the context is exempt
            // (`! { set -e; false; }` ends bash with status 1); brush honours the exemption, as the
            // statement says.  Such programs are outside what the oracle can judge.
            let text = c.script();
            let body = &text[bvcommon::prog::PROLOGUE.len().min(text.len())..];
            if body.contains("! ") && body.contains("set -e") && pair.brush.stdout.starts_with(&pair.bash.stdout) && pair.brush.stdout.len() > pair.bash.stdout.len() && !pair.bash.status.zero() && !pair.brush.panicked() {
                outcome = bvcommon::runner::Outcome::Skip("bash exits inside a `!` context after errexit was enabled there (bash quirk)".into());
            }
        }
        let (labels, nontrivial) = labels(c);
        Verdict { outcome, labels, nontrivial, sample: Some(pair_sample(&pair.bash, &pair.brush)), weight: 1 }
    }
}

pub fn extra_classes(c: &Case) -> Vec<String> {
    let mut v = vec![];
    if serde_json::to_string(&c.prog).map(|t| t.contains("${#ua[@]}")).unwrap_or(false) {
        v.push("length_of_unset_array_under_nounset".to_string());
    }
    v
}

pub fn strategy(ctx: &Ctx) -> BoxedStrategy<Case> {
    let mut raw: Vec<String> = OPTION_LEAVES.iter().map(|s| s.to_string()).collect();
    raw.extend(NOUNSET_LEAVES.iter().map(|s| s.to_string()));
    let cfg = GenCfg {
        depth: ctx.tier.pick(3, 4),
        max_list: 3,
        nfuncs: 2,
        raw,
        raw_weight: 8,
        pipes: true,
        substs: true,
        evals: true,
        jumps: true,
        exits: true,
        probes: true,
        no_while: false,
    };
    let flags = proptest::collection::vec(proptest::sample::select(vec!["-e", "-u"]), 0..=2).prop_map(|v| {
        let mut v: Vec<String> = v.into_iter().map(String::from).collect();
        v.sort();
        v.dedup();
        v
    });
    let init = proptest::collection::vec(
        proptest::sample::select(vec!["set -e", "set -u", "set -o pipefail", "shopt -s inherit_errexit", "set -E", "set -eu", "set -e -o pipefail"]),
        0..=3,
    )
    .prop_map(|v| v.into_iter().map(String::from).collect());
    (prog_strategy(&cfg), flags, init, Just(false))
        .prop_map(|(prog, flags, init, err_trap)| Case { prog, flags, init, err_trap })
        .boxed()
}

pub fn run(run: &mut PropRun, ctx: &Ctx) {
    run.rule = "C02 grammar extended with option toggles (set -e/-u/pipefail, inherit_errexit, errtrace) at arbitrary positions, pipelines, \
                command substitutions, eval, failing leaves and unset-parameter expansion leaves, optional ERR trap; initial options from \
                command-line flags and set lines; differential vs bash 5.2.15 on the stdout trace (last marker before exit) and exit status \
                (zero/non-zero when bash stops on an unbound variable); non-trivial = errexit or nounset active and nesting depth >= 1"
        .into();
    run.assumptions.push("bash 5.2.15 is the reference for 'bash'".into());
    let n = ctx.tier.pick(4000, 80_000);
    let rep = explore(&Diff, strategy(ctx), n, ctx);
    let floors: Vec<(&str, u64)> = vec![
        ("errexit", n as u64 / 4),
        ("nounset", n as u64 / 8),
        ("pipefail", n as u64 / 20),
        ("e+if", n as u64 / 40),
        ("e+andor", n as u64 / 40),
        ("e+not", n as u64 / 80),
        ("e+pipe", n as u64 / 80),
        ("e+subst", n as u64 / 80),
        ("e+eval", n as u64 / 80),
        ("e+subshell", n as u64 / 80),
        ("e+call", n as u64 / 40),
    ];
    if rep.failures.is_empty() {
        if let Some(m) = check_floors(&rep, &floors) {
            run.fatal = Some(format!("generator degenerate: {m}"));
        }
    }
    run.add(rep);
}

pub fn replay(layer: &str, case: &serde_json::Value) -> Result<(String, Verdict), String> {
    match layer {
        "diff" => replay_case(&Diff, case),
        _ => Err(format!("C03: unknown layer {layer}")),
    }
}

//! C20 — command history: all layers run in process (inproc/src/c20.rs).
use bvcommon::report::PropRun;
use bvcommon::runner::{Ctx, Verdict};

pub fn run(run: &mut PropRun, ctx: &Ctx) {
    run.rule = "operation sequences over {add(c) for c in {a, 'b b', '  c  ', '#x'}, save, new session on the same file, delete(0|1), clear, toggle HISTTIMEFORMAT}: \
                all sequences up to length 5 (quick) / 6 (thorough) plus random ones of length 5-12 with random commands; driven through Shell::add_to_history, \
                Shell::save_history, a freshly built interactive Shell on the same HISTFILE, History::remove_nth_item/clear; after every operation the bytes of \
                the file (epochs normalised) and History::iter() (command, has-timestamp) are compared with an executable model written from the property \
                (for sequences recording a '#'-leading command only the projection on the other commands is compared); non-trivial = a save after an add and \
                at least one further operation after that save"
        .into();
    run.assumptions.push("timestamps are compared as present/absent, not by value".into());
    crate::inproc::run_inproc("C20", ctx, run);
}

pub fn replay(layer: &str, case: &serde_json::Value) -> Result<(String, Verdict), String> {
    crate::inproc::replay_inproc("C20", layer, case)
}

//! helpers shared by the property modules
use bvcommon::exec::Obs;
use serde_json::{json, Value};

pub fn pair_sample(bash: &Obs, brush: &Obs) -> Value {
    json!({"bash": bash.summary(), "brush": brush.summary()})
}

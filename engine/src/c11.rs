//! C11 — pipelines and command substitutions move all data, in order, without deadlock.
//! Differential vs bash over generated pipelines (stage kinds x payload sizes around and beyond the
//! pipe capacity x slow stages x early-exit consumers x exit statuses x pipefail), with stage-start
//! schedules forced through the feature-gated pause points; a hang is a violation only when bash
//! finishes quickly and brush times out three times.

use bvcommon::exec::{run_case, run_case_opts, CaseSpec, Obs, RunOpts, ShellKind, Status};
use bvcommon::report::PropRun;
use bvcommon::runner::{check_floors, explore, replay_case, Ctx, Layer, Outcome, Verdict};
use proptest::prelude::*;
use serde::{Deserialize, Serialize};
use serde_json::json;

#[derive(Clone, Debug, Serialize, Deserialize)]
pub struct Case {
    /// "pipe" | "subst" | "read-shared"
    pub kind: String,
    pub size: u64,
    pub producer: String,
    pub filters: Vec<String>,
    pub consumer: String,
    /// exit status forced on stage i (only stages that can carry one), 0 = none
    pub statuses: Vec<u8>,
    pub pipefail: bool,
    /// BRUSH_VERIF_PAUSES value ("" = none)
    pub pauses: String,
    /// value of $? right before the command under test
    #[serde(default)]
    pub prev: u8,
}

const FUNCS: &str = r#"pg() { gen "$1"; }
pb() { local i; for ((i=0; i<$1; i+=64)); do printf '%s\n' "line-$i-padding-padding-padding-padding-padding-padding-pad"; done; }
ff() { cat; }
fb() { local l; while IFS= read -r l; do printf '%s\n' "$l"; done; }
fs() { sink; }
"#;

pub const PRODUCERS: &[&str] = &["gen", "brace-gen", "sub-gen", "func-gen", "builtin-loop", "printf"];
pub const FILTERS: &[&str] = &["cat", "slow", "brace-cat", "sub-cat", "func-cat", "while-read", "func-while-read", "tr"];
pub const CONSUMERS: &[&str] = &["sink", "brace-sink", "sub-sink", "func-sink", "count-lines", "wc", "head-early", "read-one-early", "read-then-sink"];

fn is_compound(kind: &str) -> bool {
    !matches!(kind, "gen" | "cat" | "slow" | "tr" | "sink" | "wc" | "printf" | "head-early")
}

impl Case {
    fn producer_text(&self, st: u8) -> String {
        let n = self.size;
        let ex = |open: &str, close: &str, body: String| if st != 0 { format!("{open} {body}; exit {st}{close}") } else { format!("{open} {body}{close}") };
        match self.producer.as_str() {
            "gen" => format!("gen {n}"),
            "brace-gen" => {
                if st != 0 {
                    format!("{{ gen {n}; ( exit {st} ); }}")
                } else {
                    format!("{{ gen {n}; }}")
                }
            }
            "sub-gen" => ex("(", " )", format!("gen {n}")),
            "func-gen" => format!("pg {n}"),
            "builtin-loop" => format!("pb {n}"),
            _ => format!("printf '%s\\n' a-first-line {n} last"),
        }
    }
    fn filter_text(&self, f: &str, st: u8) -> String {
        match f {
            "cat" => "cat".into(),
            "slow" => "slow 1".into(),
            "brace-cat" => {
                if st != 0 {
                    format!("{{ cat; ( exit {st} ); }}")
                } else {
                    "{ cat; }".into()
                }
            }
            "sub-cat" => {
                if st != 0 {
                    format!("( cat; exit {st} )")
                } else {
                    "( cat )".into()
                }
            }
            "func-cat" => "ff".into(),
            "while-read" => "while IFS= read -r l; do printf '%s\\n' \"$l\"; done".into(),
            "func-while-read" => "fb".into(),
            _ => "tr a-z A-Z".into(),
        }
    }
    fn consumer_text(&self, st: u8) -> String {
        match self.consumer.as_str() {
            "sink" => "sink".into(),
            "brace-sink" => {
                if st != 0 {
                    format!("{{ sink; ( exit {st} ); }}")
                } else {
                    "{ sink; }".into()
                }
            }
            "sub-sink" => {
                if st != 0 {
                    format!("( sink; exit {st} )")
                } else {
                    "( sink )".into()
                }
            }
            "func-sink" => "fs".into(),
            "count-lines" => "{ n=0; while IFS= read -r l; do n=$((n+1)); done; echo \"lines=$n\"; }".into(),
            "wc" => "wc -c".into(),
            "head-early" => "head -c 10".into(),
            "read-one-early" => "{ IFS= read -r first; echo \"first=$first\"; }".into(),
            _ => "{ IFS= read -r a; echo \"a=${#a}\"; sink; }".into(),
        }
    }
    pub fn early_exit(&self) -> bool {
        matches!(self.consumer.as_str(), "head-early" | "read-one-early")
    }
    pub fn pipeline(&self) -> String {
        let mut stages = vec![self.producer_text(*self.statuses.first().unwrap_or(&0))];
        for (i, f) in self.filters.iter().enumerate() {
            stages.push(self.filter_text(f, *self.statuses.get(i + 1).unwrap_or(&0)));
        }
        stages.push(self.consumer_text(*self.statuses.get(self.filters.len() + 1).unwrap_or(&0)));
        stages.join(" | ")
    }
    pub fn script(&self) -> String {
        let mut s = String::from(FUNCS);
        if self.pipefail {
            s.push_str("set -o pipefail\n");
        }
        match self.kind.as_str() {
            "subst" => {
                // producer (and filters) inside $( ): exact output minus trailing newlines, and the status
                let mut stages = vec![self.producer_text(0)];
                for f in &self.filters {
                    stages.push(self.filter_text(f, 0));
                }
                let st = *self.statuses.first().unwrap_or(&0);
                let tail = match self.size % 4 {
                    0 => "",
                    1 => "; printf '\\n\\n\\n'",
                    2 => "; printf 'x'",
                    _ => "; printf '\\n \\n'",
                };
                let exit = if st != 0 { format!("; exit {st}") } else { String::new() };
                s.push_str(&format!("( exit {} )\nx=$( {}{}{} )\necho \"status=$?\"\nprintf '%s' \"$x\" | sink\necho \"len=${{#x}}\"\n", self.prev, stages.join(" | "), tail, exit));
                // the same substitution again: its status must be reported again
                s.push_str(&format!("y=$( {}{} )\necho \"again=$? ${{#y}}\"\n", stages.join(" | "), if st != 0 { format!("; exit {st}") } else { String::new() }));
            }
            "read-shared" => {
                // several readers share one descriptor: each `read` takes exactly one line
                s.push_str(&format!("gen {} > data\n{{ IFS= read -r a; IFS= read -r b; echo \"a=${{#a}} b=${{#b}}\"; {}; IFS= read -r c; echo \"c=${{#c}}\"; }} < data\n", self.size, if self.consumer == "sink" { "head -c 0" } else { "sink" }));
                s.push_str(&format!("{} | {{ IFS= read -r a; echo \"a=${{#a}}\"; {} ; }}\necho \"PS:${{PIPESTATUS[*]}} $?\"\n", self.producer_text(0), self.filter_text(self.filters.first().map(|x| x.as_str()).unwrap_or("cat"), 0) + " | sink"));
            }
            _ => {
                s.push_str(&format!("( exit {} )\n", self.prev));
                s.push_str(&self.pipeline());
                s.push('\n');
                if self.early_exit() {
                    s.push_str("echo \"last=$?\"\n");
                } else {
                    s.push_str("echo \"PS:${PIPESTATUS[*]} $?\"\n");
                }
            }
        }
        s.push_str("echo \"@END\"\n");
        s
    }
    pub fn render(&self) -> String {
        format!("# pauses: {}\n{}", self.pauses, &self.script()[FUNCS.len()..])
    }
}

pub fn classes_of(c: &Case) -> Vec<String> {
    let mut v = vec![];
    // a compound or function stage that is not the last one and has to pass on more than the pipe holds
    let mut nonfinal: Vec<&str> = vec![c.producer.as_str()];
    nonfinal.extend(c.filters.iter().map(|s| s.as_str()));
    if c.kind == "pipe" && c.size > 60_000 && nonfinal.iter().any(|k| is_compound(k)) {
        v.push("inline_nonfinal_stage_beyond_pipe_capacity".to_string());
    }
    v
}

pub struct Pipes;

fn run_brush(spec: &CaseSpec, pauses: &str) -> Obs {
    if pauses.is_empty() {
        run_case(ShellKind::Brush, spec)
    } else {
        run_case_opts(ShellKind::Brush, spec, &RunOpts { brush_env: vec![("BRUSH_VERIF_PAUSES".into(), pauses.to_string())], ..Default::default() })
    }
}

impl Layer for Pipes {
    type Case = Case;
    fn name(&self) -> String {
        "pipelines".into()
    }
    fn classes(&self, c: &Case) -> Vec<String> {
        classes_of(c)
    }
    fn render(&self, c: &Case) -> String {
        c.render()
    }
    fn shrink_candidates(&self, c: &Case) -> Vec<Case> {
        let mut out = vec![];
        if !c.pauses.is_empty() {
            out.push(Case { pauses: String::new(), ..c.clone() });
        }
        for i in 0..c.filters.len() {
            let mut f = c.filters.clone();
            f.remove(i);
            let mut st = c.statuses.clone();
            if i + 1 < st.len() {
                st.remove(i + 1);
            }
            out.push(Case { filters: f, statuses: st, ..c.clone() });
        }
        if c.statuses.iter().any(|s| *s != 0) {
            out.push(Case { statuses: vec![0; c.statuses.len()], ..c.clone() });
        }
        if c.pipefail {
            out.push(Case { pipefail: false, ..c.clone() });
        }
        for s in [0u64, 100, 65_536, 70_000, 200_000] {
            if s < c.size {
                out.push(Case { size: s, ..c.clone() });
            }
        }
        if c.producer != "gen" {
            out.push(Case { producer: "gen".into(), ..c.clone() });
        }
        if c.consumer != "sink" {
            out.push(Case { consumer: "sink".into(), ..c.clone() });
        }
        for (i, f) in c.filters.iter().enumerate() {
            if f != "cat" {
                let mut fs = c.filters.clone();
                fs[i] = "cat".into();
                out.push(Case { filters: fs, ..c.clone() });
            }
        }
        out
    }
    fn eval(&self, c: &Case) -> Verdict {
        let limit = 8_000u64;
        let spec = CaseSpec { script: c.script(), timeout_ms: limit, ..Default::default() };
        let mut labels = vec![format!("kind:{}", c.kind), format!("producer:{}", c.producer), format!("consumer:{}", c.consumer)];
        for f in &c.filters {
            labels.push(format!("filter:{f}"));
        }
        labels.push(
            match c.size {
                0 => "size:0",
                1..=4095 => "size:small",
                4096..=65_535 => "size:below-pipe-capacity",
                65_536..=65_537 => "size:at-pipe-capacity",
                65_538..=999_999 => "size:beyond-pipe-capacity",
                _ => "size:mib",
            }
            .to_string(),
        );
        if !c.pauses.is_empty() {
            labels.push("schedule-forced".into());
        }
        if c.early_exit() {
            labels.push("early-exit-consumer".into());
        }
        if c.statuses.iter().any(|s| *s != 0) {
            labels.push("stage-status".into());
        }
        if c.pipefail {
            labels.push("pipefail".into());
        }
        if c.prev != 0 && c.statuses.first().copied().unwrap_or(0) == c.prev {
            labels.push("status-equals-previous-status".into());
        }
        let mut kinds: Vec<&str> = vec![c.producer.as_str(), c.consumer.as_str()];
        kinds.extend(c.filters.iter().map(|s| s.as_str()));
        if kinds.iter().any(|k| is_compound(k)) {
            labels.push("compound-or-function-stage".into());
        }
        let nontrivial = c.size >= 65_536 || !c.pauses.is_empty() || c.early_exit();
        let bash = run_case(ShellKind::Bash, &spec);
        if bash.status == Status::Timeout || !bash.out_lossy().contains("@END") {
            return Verdict { outcome: Outcome::Inconclusive("bash did not finish".into()), labels, nontrivial, sample: None, weight: 1 };
        }
        let brush = run_brush(&spec, &c.pauses);
        let sample = json!({"pipeline": c.render().lines().nth(1).unwrap_or(""), "bash": bash.summary(), "brush_status": format!("{:?}", brush.status), "brush_ms": brush.wall_ms});
        if brush.panicked() {
            return Verdict { outcome: Outcome::Fail(format!("brush crashed: {}", brush.summary())), labels, nontrivial, sample: Some(sample), weight: 1 };
        }
        if brush.status == Status::Timeout {
            if bash.wall_ms * 20 > limit {
                return Verdict { outcome: Outcome::Inconclusive("brush timed out, bash was slow too".into()), labels, nontrivial, sample: Some(sample), weight: 1 };
            }
            let mut s2 = spec.clone();
            s2.timeout_ms = limit * 2;
            for _ in 0..2 {
                if run_brush(&s2, &c.pauses).status != Status::Timeout {
                    return Verdict { outcome: Outcome::Inconclusive("brush time-out did not reproduce".into()), labels, nontrivial, sample: Some(sample), weight: 1 };
                }
            }
            return Verdict { outcome: Outcome::Fail(format!("the pipeline never finishes in brush (bash: {} ms; brush exceeded {} ms three times)", bash.wall_ms, limit)), labels, nontrivial, sample: Some(sample), weight: 1 };
        }
        let outcome = if bash.stdout != brush.stdout {
            Outcome::Fail(format!("stdout differs.\nbash:\n{}\nbrush:\n{}\nbrush stderr: {}", bvcommon::exec::trunc(&bash.out_lossy(), 800), bvcommon::exec::trunc(&brush.out_lossy(), 800), bvcommon::exec::trunc(&brush.err_lossy(), 300)))
        } else if bash.status != brush.status {
            Outcome::Fail(format!("exit status differs: bash {:?} brush {:?}", bash.status, brush.status))
        } else {
            Outcome::Pass
        };
        Verdict { outcome, labels, nontrivial, sample: Some(sample), weight: 1 }
    }
}

pub fn strategy(ctx: &Ctx) -> BoxedStrategy<Case> {
    let big = ctx.tier.pick(1_000_000u64, 4_194_304u64);
    let size = prop_oneof![
        1 => Just(0u64),
        2 => 1u64..200,
        2 => 1000u64..60_000,
        2 => prop_oneof![Just(65_535u64), Just(65_536u64), Just(65_537u64)],
        3 => 66_000u64..300_000,
        1 => Just(big),
    ];
    let pause = prop_oneof![
        5 => Just(String::new()),
        1 => Just("pipeline_stage_spawned=20".to_string()),
        1 => Just("pipeline_stage_spawned.0=40".to_string()),
        1 => Just("pipeline_stage_spawned.1=40,pipeline_before_wait=20".to_string()),
        1 => Just("pipeline_before_wait=50".to_string()),
        1 => Just("cmdsubst_reader_start=40".to_string()),
        1 => Just("pipeline_stage_spawned.0=5,pipeline_stage_spawned.1=30,pipeline_stage_spawned.2=5".to_string()),
    ];
    (
        prop_oneof![6 => Just("pipe"), 2 => Just("subst"), 1 => Just("read-shared")],
        size,
        proptest::sample::select(PRODUCERS.to_vec()),
        proptest::collection::vec(proptest::sample::select(FILTERS.to_vec()), 0..=2),
        proptest::sample::select(CONSUMERS.to_vec()),
        proptest::collection::vec(prop_oneof![3 => Just(0u8), 1 => Just(3u8), 1 => Just(1u8)], 4),
        proptest::bool::weighted(0.3),
        pause,
        prop_oneof![2 => Just(0u8), 1 => Just(1u8), 1 => Just(3u8)],
    )
        .prop_map(|(kind, size, producer, filters, consumer, statuses, pipefail, pauses, prev)| {
            let mut size = size;
            // shell-loop stages are slow: keep their payloads moderate
            let slowish = producer == "builtin-loop" || filters.iter().any(|f| f.contains("while-read") || *f == "slow") || consumer == "count-lines";
            if slowish && size > 120_000 {
                size = 120_000;
            }
            if kind == "subst" && size > 1_000_000 {
                size = 1_000_000;
            }
            // with an early-exit consumer the upstream statuses (hence $? under pipefail) depend on timing in bash too
            let pipefail = pipefail && !matches!(consumer, "head-early" | "read-one-early");
            Case { kind: kind.to_string(), size, producer: producer.to_string(), filters: filters.into_iter().map(String::from).collect(), consumer: consumer.to_string(), statuses, pipefail, pauses, prev }
        })
        .boxed()
}

pub fn run(run: &mut PropRun, ctx: &Ctx) {
    run.rule = "pipelines of 2-4 stages: producer in {external generator, brace group, subshell, function, builtin loop, printf}, 0-2 filters in {cat, slow copier, brace group, subshell, function, \
                while-read loop, function with while-read loop, tr}, consumer in {checksumming sink (external, in a group, subshell or function), line-counting while-read loop, wc, early-exiting \
                head, early-exiting read, read-one-line-then-sink}; payload sizes 0, small, just below / at / just above 64 KiB, 66-300 KB and 1 MiB (quick) / 4 MiB (thorough); forced exit \
                statuses per stage; pipefail on/off; stage-start schedules forced through the pause points (after each stage spawn, before the wait, at the command-substitution reader); also \
                $( ) around such pipelines (trailing-newline variants, status, evaluated twice in a row and after a command that left 0, 1 or 3 in $?) and several `read`s sharing one descriptor; oracle: differential vs bash 5.2.15 on stdout (length and checksum of \
                what arrived, PIPESTATUS, $?) and exit status; a hang is reported only if bash needed < 1/20 of the limit and brush exceeded the limit three times; non-trivial = payload >= 64 KiB, a \
                forced schedule, or an early-exit consumer"
        .into();
    run.assumptions.push("bash 5.2.15 reference; with an early-exit consumer only the consumer's output and $? are compared (upstream statuses depend on timing in bash too)".into());
    let n = ctx.tier.pick(4000, 40_000);
    let rep = explore(&Pipes, strategy(ctx), n, ctx);
    let n64 = n as u64;
    if rep.failures.is_empty() {
        if let Some(m) = check_floors(&rep, &[("size:beyond-pipe-capacity", n64 / 8), ("size:at-pipe-capacity", n64 / 20), ("schedule-forced", n64 / 5), ("early-exit-consumer", n64 / 10), ("kind:subst", n64 / 8), ("compound-or-function-stage", n64 / 3)]) {
            run.fatal = Some(format!("generator degenerate: {m}"));
        }
    }
    run.add(rep);
}

pub fn replay(layer: &str, case: &serde_json::Value) -> Result<(String, Verdict), String> {
    match layer {
        "pipelines" => replay_case(&Pipes, case),
        _ => Err(format!("C11: unknown layer {layer}")),
    }
}

//! C05 — unquoted words expand to the same argument lists as in bash (differential).

use crate::util::pair_sample;
use bvcommon::diff::{judge, DiffCfg};
use bvcommon::exec::CaseSpec;
use bvcommon::report::PropRun;
use bvcommon::runner::{check_floors, explore, replay_case, Ctx, Layer, Verdict};
use proptest::prelude::*;
use serde::{Deserialize, Serialize};

#[derive(Clone, Debug, Serialize, Deserialize)]
pub struct Case {
    /// each word is a list of pieces (concatenated without separator)
    pub words: Vec<Vec<String>>,
    /// "unset" | "default" | "space" | "newline" | "empty"
    pub ifs: String,
    /// positional parameters
    pub args: Vec<String>,
    /// nullglob / dotglob
    pub opts: Vec<String>,
    /// what $HOME looks like: "plain" | "blank" (contains a space) | "glob" (contains `*`, matching entries of the tree)
    #[serde(default)]
    pub home: String,
}

const LITERALS: &[&str] = &["ab", "a\\ b", "\\*", "*", "?", "[ab]", "*.txt", ".", "-", "=", "x=y", "/", "dir/", "d*/c*", ".d*/*", ".[a-z]*/?*", ".*", "[x]", "\\[x\\]", "sp*", "%", "nomatch*"];
const SQUOTED: &[&str] = &["'a b'", "''", "'*'", "' '", "'$m'"];
const DQUOTED: &[&str] = &["\"a b\"", "\"\"", "\"$m\"", "\"x$e\"", "\"$s\"", "\" \"", "\"*\"", "\"$g\"", "\"${u:-d e}\"", "\"$n\""];
const PARAMS: &[&str] = &["$e", "$s", "$m", "$g", "$q", "$n", "$u", "${m}", "${s}", "$1", "$2", "$3", "${#m}", "$#"];
const MULTI: &[&str] = &["$@", "$*", "\"$@\"", "\"$*\"", "${a[@]}", "${a[*]}", "\"${a[@]}\"", "\"${a[*]}\"", "${@:2}", "\"${@:1:1}\"", "${a[@]:1}"];
const SUBST: &[&str] = &["$(printf 'x y')", "$(printf '%s\\n' p q)", "`printf a`", "$(printf '')", "$(printf ' lead')", "$(printf '*.txt')", "\"$(printf 'x  y')\"", "$((1+2))", "$((0))", "$(printf 'tr  ')", "$(printf 'x \\n')", "\"$(printf 'q \\t\\n\\n')\"", "$(printf '\\n\\nmid\\n')"];
const BRACES: &[&str] = &["{a,b}", "{1..3}", "{a..c}", "{1..5..2}", "{a,{b,c}}", "{,x}", "{x,}", "{a}", "{c..a}", "{a,b}{1,2}", "{}", "{a,b\\,c}", "{\"a,b\",c}", "{3..1}", "{-1..1}", "{$m,q}"];
const TILDES: &[&str] = &["~", "~/x", "~+", "~+/y", "~nonexistentuser"];
const DEFAULTS: &[&str] = &["${u:-w x}", "${u:-\"w x\"}", "${m:+alt}", "${u:-$m}", "${u:-$s}", "${e:-}", "${u-*}", "${m:+\"$s\"}", "${u:-'q r'}", "${u:=z}", "${e:+no}"];
/// pieces with a documented/known divergence, generated rarely
const RARE: &[&str] = &["{01..03}", "${u:-{a,b}}", "~:x", ".*"];

fn piece() -> BoxedStrategy<String> {
    let sel = |v: &'static [&'static str]| proptest::sample::select(v.to_vec()).prop_map(String::from);
    prop_oneof![
        6 => sel(LITERALS),
        2 => sel(SQUOTED),
        4 => sel(DQUOTED),
        6 => sel(PARAMS),
        4 => sel(MULTI),
        3 => sel(SUBST),
        4 => sel(BRACES),
        2 => sel(DEFAULTS),
    ]
    .boxed()
}

fn word() -> BoxedStrategy<Vec<String>> {
    (proptest::collection::vec(piece(), 1..=5), proptest::option::weighted(0.15, proptest::sample::select(TILDES.to_vec())), proptest::option::weighted(0.1, proptest::sample::select(RARE.to_vec())))
        .prop_map(|(mut p, tilde, rare)| {
            if let Some(t) = tilde {
                p.insert(0, t.to_string());
            }
            if let Some(r) = rare {
                if r.starts_with('~') || r.starts_with('\'') {
                    return vec![r.to_string()];
                }
                p.push(r.to_string());
            }
            p
        })
        .boxed()
}

pub fn cases() -> BoxedStrategy<Case> {
    (
        proptest::collection::vec(word(), 3..=6),
        proptest::sample::select(vec!["unset", "default", "default", "space", "newline", "empty"]),
        proptest::collection::vec(proptest::sample::select(vec!["p1", "", "q r", "*", " lead"]), 0..=3),
        proptest::sample::subsequence(vec!["nullglob", "dotglob"], 0..=2),
        proptest::sample::select(vec!["plain", "plain", "plain", "blank", "glob"]),
    )
        .prop_map(|(mut words, ifs, args, opts, home)| {
            // keep the shapes of the known brace-expansion finding rare (1 word in 8), so that the rest of
            // the domain is still searched when that class is excluded
            for w in words.iter_mut() {
                let keep = bvcommon::runner::hash_str(&w.concat()) % 8 == 0;
                let tilde_first = w.first().map(|p| p.starts_with('~')).unwrap_or(false);
                for p in w.iter_mut() {
                    let is_brace = (BRACES.contains(&p.as_str()) && p != "{a}" && p != "{}") || RARE.contains(&p.as_str());
                    if !is_brace || keep {
                        continue;
                    }
                    if ifs == "newline" || ifs == "empty" || tilde_first || p == "{,x}" || p == "{x,}" {
                        *p = "ab".to_string();
                    }
                }
            }
            Case { words, ifs: ifs.to_string(), args: args.into_iter().map(String::from).collect(), opts: opts.into_iter().map(String::from).collect(), home: home.to_string() }
        })
        .boxed()
}

fn script(c: &Case) -> String {
    let mut s = String::new();
    s.push_str("argdump() { printf 'argc=%s\\n' \"$#\"; for _x; do printf '%s:%s\\n' \"${#_x}\" \"$_x\"; done; }\n");
    s.push_str("e=''; s=' a  b '; m='x y z'; g='*.txt'; q='a\"b'; n=$'p\\nq'; unset u; a=('' ' ' 'p q' r)\n");
    for o in ["nullglob", "dotglob"] {
        s.push_str(&format!("shopt -{} {o}\n", if c.opts.iter().any(|x| x == o) { "s" } else { "u" }));
    }
    s.push_str("cd t\n");
    // the result of a tilde expansion is never split or globbed, whatever the directory is called
    match c.home.as_str() {
        "blank" => s.push_str("HOME=\"$PWD/my home\"\n"),
        "glob" => s.push_str("HOME=\"$PWD/d*\"\n"),
        _ => {}
    }
    match c.ifs.as_str() {
        "unset" => s.push_str("unset IFS\n"),
        "space" => s.push_str("IFS=' '\n"),
        "newline" => s.push_str("IFS=$'\\n'\n"),
        "empty" => s.push_str("IFS=\n"),
        _ => {}
    }
    for (k, w) in c.words.iter().enumerate() {
        let w: String = w.concat();
        s.push_str(&format!("echo \"#{k}\"\n"));
        s.push_str(&format!("( set -- {w}; argdump \"$@\" )\n"));
        s.push_str(&format!("( argdump {w} )\n"));
        s.push_str(&format!("( for x in {w}; do argdump \"$x\"; done )\n"));
        // inside an array literal a word of the form `[subscript]=value` is an element assignment, not a
        // word to expand (and bash decides that before brace expansion, brush after): not this property
        let looks_like_element_assignment = w.starts_with('[') && w.contains("]=");
        if !looks_like_element_assignment {
            s.push_str(&format!("( arr=({w}); argdump \"${{arr[@]}}\" )\n"));
        }
    }
    s.push_str("echo @END\n");
    s
}

pub struct Diff;

pub fn classes_of(c: &Case) -> Vec<String> {
    let mut v = vec![];
    let text: String = c.words.iter().map(|w| w.concat()).collect::<Vec<_>>().join(" ");
    // brace expansion is implemented by joining the alternatives with a space and re-parsing the
    // text as one word: wrong when IFS has no space, when only the first alternative keeps its
    // tilde prefix, and when an alternative is empty
    let is_brace = |p: &String| (BRACES.contains(&p.as_str()) && p != "{a}" && p != "{}") || RARE.contains(&p.as_str());
    for w in &c.words {
        if !w.iter().any(is_brace) {
            continue;
        }
        let tilde_first = w.first().map(|p| p.starts_with('~')).unwrap_or(false);
        let empty_member = w.iter().any(|p| p == "{,x}" || p == "{x,}");
        if c.ifs == "newline" || c.ifs == "empty" || tilde_first || empty_member {
            v.push("brace_expansion_by_text_rejoin".to_string());
            break;
        }
    }
    if c.ifs == "empty" && (text.contains("\"$*\"") || text.contains("\"${a[*]}\"")) {
        v.push("empty_ifs_star_join".to_string());
    }
    if text.contains("{01..03}") {
        v.push("brace_range_zero_padding".to_string());
    }
    v
}

impl Layer for Diff {
    type Case = Case;
    fn name(&self) -> String {
        "diff".into()
    }
    fn render(&self, c: &Case) -> String {
        format!("IFS={} args={:?} opts={:?} words: {}", c.ifs, c.args, c.opts, c.words.iter().map(|w| w.concat()).collect::<Vec<_>>().join("   "))
    }
    fn classes(&self, c: &Case) -> Vec<String> {
        classes_of(c)
    }
    fn shrink_candidates(&self, c: &Case) -> Vec<Case> {
        let mut out = vec![];
        if c.words.len() > 1 {
            for w in &c.words {
                out.push(Case { words: vec![w.clone()], ..c.clone() });
            }
        }
        if c.words.len() == 1 {
            let w = &c.words[0];
            for i in 0..w.len() {
                if w.len() > 1 {
                    let mut n = w.clone();
                    n.remove(i);
                    out.push(Case { words: vec![n], ..c.clone() });
                }
            }
        }
        for i in 0..c.args.len() {
            let mut a = c.args.clone();
            a.remove(i);
            out.push(Case { args: a, ..c.clone() });
        }
        for i in 0..c.opts.len() {
            let mut o = c.opts.clone();
            o.remove(i);
            out.push(Case { opts: o, ..c.clone() });
        }
        if c.ifs != "default" {
            out.push(Case { ifs: "default".into(), ..c.clone() });
        }
        out
    }
    fn eval(&self, c: &Case) -> Verdict {
        let files: Vec<(String, String)> = vec![
            ("t/".into(), String::new()),
            ("t/a.txt".into(), "x".into()),
            ("t/b.txt".into(), "x".into()),
            ("t/.hid".into(), "x".into()),
            ("t/sp ace".into(), "x".into()),
            ("t/[x]".into(), "x".into()),
            ("t/dir/".into(), String::new()),
            ("t/dir/c.txt".into(), "x".into()),
            ("t/dir/.c2".into(), "x".into()),
            ("t/.dd/".into(), String::new()),
            ("t/.dd/.h2".into(), "x".into()),
            ("t/.dd/v".into(), "x".into()),
        ];
        let spec = CaseSpec { script: script(c), args: c.args.clone(), files, timeout_ms: 15_000, ..Default::default() };
        let (outcome, pair) = judge(&spec, &DiffCfg::default());
        let mut labels = vec![format!("ifs:{}", c.ifs)];
        let kinds = |w: &Vec<String>| -> std::collections::BTreeSet<&'static str> {
            let mut k = std::collections::BTreeSet::new();
            for p in w {
                let p = p.as_str();
                if BRACES.contains(&p) {
                    k.insert("brace");
                } else if PARAMS.contains(&p) || DEFAULTS.contains(&p) {
                    k.insert("param");
                } else if MULTI.contains(&p) {
                    k.insert("multi");
                } else if SUBST.contains(&p) {
                    k.insert("subst");
                } else if TILDES.contains(&p) {
                    k.insert("tilde");
                } else if DQUOTED.contains(&p) || SQUOTED.contains(&p) {
                    k.insert("quoted");
                } else {
                    k.insert("literal");
                }
            }
            k
        };
        let mut nontrivial = false;
        for w in &c.words {
            let k = kinds(w);
            if k.len() >= 2 {
                nontrivial = true;
            }
            if k.contains("brace") && k.contains("param") {
                labels.push("brace+param".into());
            }
            if k.contains("multi") && k.len() >= 2 {
                labels.push("at-adjacent-to-text".into());
            }
            let t = w.concat();
            if t.contains("$s") || t.contains("$m") {
                labels.push("param-with-ifs-chars".into());
            }
            if (t.contains('*') || t.contains('?')) && (t.contains("$") ) {
                labels.push("split+glob".into());
            }
            if t.contains("\"\"$e") || t.contains("$e\"\"") || t.contains("''$e") || t.contains("$e''") {
                labels.push("empty-field-retention".into());
            }
        }
        labels.sort();
        labels.dedup();
        Verdict { outcome, labels, nontrivial, sample: Some(pair_sample(&pair.bash, &pair.brush)), weight: (c.words.len() * 4) as u64 }
    }
}

pub fn run(run: &mut PropRun, ctx: &Ctx) {
    run.rule = "words of 1-6 pieces from: literal runs (escaped and glob characters), '…', \"…\" with text and $v, $v ${v} $1 $@ $* \"$@\" \"$*\" ${a[@]} ${a[*]} and slices, $( ) and backquote \
                substitutions, $(( )), brace expressions (lists, numeric/character ranges with step, nested, empty members, cross products), tilde prefixes, ${v:-word}/${v:+word} with nested \
                words; environment with empty, blank-padded, multi-field, glob-like and newline values; positional lists of length 0-3; IFS in {unset, default, space, newline, empty}; a fixed \
                tree with dot-files, a name with a space, `[x]` and a sub-directory; nullglob/dotglob; each word evaluated as `set -- W`, command argument, `for x in W` and array literal, \
                differential vs bash 5.2.15 on the argdump output; non-trivial = a word mixing >= 2 piece kinds; evaluations counts (word, context) pairs"
        .into();
    run.assumptions.push("whitespace IFS only (the property's stated domain); bash 5.2.15 reference".into());
    let n = ctx.tier.pick(8000, 100_000);
    let rep = explore(&Diff, cases(), n, ctx);
    let floors: Vec<(&str, u64)> = vec![("brace+param", n as u64 / 50), ("at-adjacent-to-text", n as u64 / 20), ("param-with-ifs-chars", n as u64 / 10), ("split+glob", n as u64 / 20), ("ifs:empty", n as u64 / 20), ("ifs:newline", n as u64 / 20)];
    if rep.failures.is_empty() {
        if let Some(m) = check_floors(&rep, &floors) {
            run.fatal = Some(format!("generator degenerate: {m}"));
        }
    }
    run.add(rep);
}

pub fn replay(layer: &str, case: &serde_json::Value) -> Result<(String, Verdict), String> {
    match layer {
        "diff" => replay_case(&Diff, case),
        _ => Err(format!("C05: unknown layer {layer}")),
    }
}

//! C15 — a program means the same however it is delivered (file, -c, source, eval, stdin), and on
//! stdin a command runs as soon as, and only when, the text read so far is a complete command.
//! (The cache-transparency part of the property is checked in process: inproc/src/c15.rs.)

use bvcommon::diff::bash_rejects;
use bvcommon::exec::{run_case, CaseSpec, Delivery, Obs, ShellKind, Status};
use bvcommon::prog::{prog_strategy, GenCfg, Prog, PROLOGUE};
use bvcommon::report::PropRun;
use bvcommon::runner::{check_floors, explore, replay_case, Ctx, Layer, Outcome, Verdict};
use proptest::prelude::*;
use serde::{Deserialize, Serialize};
use serde_json::json;

pub const RAW: &[&str] = &[
    "echo \"L:$LINENO\"",
    "echo \"L:$LINENO\"",
    "t 40 0 \\\n  && t 41 0",
    "echo \"L:$LINENO\" \\\n  \"M:$LINENO\"",
    // a continuation that is followed by an empty or blank line
    "t 40 0 \\\n\necho \"L:$LINENO\"",
    "echo \"L:$LINENO\" \\\n   \necho \"M:$LINENO\"",
    "{ cat <<EOF\nh:$LINENO x\nEOF\n}",
    "{ cat <<'EOF'\nraw $LINENO \\\nEOF\n}",
    "{ cat <<-EOF\n\ttab $((1+1))\n\tEOF\n}",
    "lf",
    "echo 'multi\nline'",
    "echo \"dq\nline $LINENO\"",
    "x=$(\n  t 43 0\n  t 44 0\n); echo \"x:$x\"",
    "case a in\n  (a) t 45 0 ;;\n  (*) t 46 1 ;;\nesac",
    "eval 'echo \"e:$LINENO\"'",
    "echo \"c:$(echo $LINENO)\"",
    "eval 't 47 0\nt 48 0'",
];

const HELPERS: &str = "lf() {\n  echo \"f:$LINENO\"\n\n  echo \"g:$LINENO\"\n}\n";

#[derive(Clone, Debug, Serialize, Deserialize)]
pub struct Case {
    pub prog: Prog,
    /// decoration inserted after line i: 0 nothing, 1 blank line, 2 comment line, 3 indented comment
    pub deco: Vec<u8>,
    pub final_newline: bool,
}

impl Case {
    pub fn text(&self) -> String {
        let base = format!("{}{}{}echo \"@END:$?\"", PROLOGUE, HELPERS, self.prog.render_body());
        let mut out = String::new();
        let lines: Vec<&str> = base.split('\n').collect();
        let mut in_heredoc: Option<String> = None;
        for (i, l) in lines.iter().enumerate() {
            out.push_str(l);
            if i + 1 < lines.len() {
                out.push('\n');
            }
            // track here-documents: no decoration inside a body (it would still be the same text for every
            // delivery, but keeps the bodies as written)
            if let Some(tag) = &in_heredoc {
                if l.trim_start_matches('\t') == tag {
                    in_heredoc = None;
                }
                continue;
            }
            if let Some(p) = l.find("<<") {
                let rest = l[p + 2..].trim_start_matches('-').trim_start();
                let tag: String = rest.trim_start_matches('\'').chars().take_while(|c| c.is_ascii_alphanumeric()).collect();
                if !tag.is_empty() && !l[p..].starts_with("<<<") {
                    in_heredoc = Some(tag);
                    continue;
                }
            }
            if l.ends_with('\\') || i + 1 >= lines.len() {
                continue;
            }
            // inside a quoted multi-line string a decoration would become content: identical for all deliveries
            match self.deco.get(i % self.deco.len().max(1)).copied().unwrap_or(0) {
                1 => out.push('\n'),
                2 => out.push_str("# a comment line; with a semicolon\n"),
                3 => out.push_str("   # indented comment\n"),
                _ => {}
            }
        }
        if self.final_newline {
            out.push('\n');
        }
        out
    }
    pub fn render(&self) -> String {
        let t = self.text();
        t[PROLOGUE.len()..].to_string()
    }
}

/// `return` outside a function means different things in a script file and in a sourced file (also in
/// bash); such statements are replaced by a plain leaf
pub fn strip_toplevel_return(p: &mut Prog) {
    if let Ok(mut v) = serde_json::to_value(&p.main) {
        fn go(v: &mut serde_json::Value) {
            match v {
                serde_json::Value::Object(m) => {
                    if m.len() == 1 && m.contains_key("Return") {
                        *v = json!({"Leaf": {"k": 1, "s": 0}});
                        return;
                    }
                    for (_, x) in m.iter_mut() {
                        go(x);
                    }
                }
                serde_json::Value::Array(a) => a.iter_mut().for_each(go),
                _ => {}
            }
        }
        go(&mut v);
        if let Ok(m) = serde_json::from_value(v) {
            p.main = m;
        }
    }
}

/// a here-document leaf somewhere inside `$( )`
pub fn heredoc_in_substitution(p: &Prog) -> bool {
    fn go(v: &serde_json::Value) -> bool {
        match v {
            serde_json::Value::Object(m) => {
                for key in ["SubstAssign", "SubstArg"] {
                    if let Some(x) = m.get(key) {
                        if x.to_string().contains("<<") {
                            return true;
                        }
                    }
                }
                m.values().any(go)
            }
            serde_json::Value::Array(a) => a.iter().any(go),
            _ => false,
        }
    }
    serde_json::to_value(p).map(|v| go(&v)).unwrap_or(false)
}

const DELIVERIES: &[(&str, Delivery)] = &[("file", Delivery::File), ("dash-c", Delivery::DashC), ("source", Delivery::Source), ("eval", Delivery::Eval), ("stdin", Delivery::Stdin)];

fn obs_key(o: &Obs) -> (Vec<u8>, String) {
    (o.stdout.clone(), format!("{:?}", o.status))
}

pub struct DeliveryLayer;

pub fn classes_of(text: &str) -> Vec<String> {
    let mut v = vec![];
    if text.contains("eval 'echo \"e:$LINENO\"'") || text.contains("$(echo $LINENO)") {
        v.push("lineno_in_eval_or_cmdsubst".to_string());
    }
    v
}

impl Layer for DeliveryLayer {
    type Case = Case;
    fn name(&self) -> String {
        "delivery".into()
    }
    fn classes(&self, c: &Case) -> Vec<String> {
        let mut v = classes_of(&c.text());
        v.extend(crate::c02::classes(&c.prog));
        v
    }
    fn render(&self, c: &Case) -> String {
        c.render()
    }
    fn shrink_candidates(&self, c: &Case) -> Vec<Case> {
        let mut out = vec![];
        if c.deco.iter().any(|d| *d != 0) {
            out.push(Case { deco: vec![0], ..c.clone() });
        }
        if !c.final_newline {
            out.push(Case { final_newline: true, ..c.clone() });
        }
        for p in c.prog.shrink_candidates() {
            out.push(Case { prog: p, ..c.clone() });
        }
        out
    }
    fn eval(&self, c: &Case) -> Verdict {
        let text = c.text();
        let mk = |d: &Delivery| CaseSpec { script: text.clone(), delivery: d.clone(), args: vec!["A1".into(), "A2".into()], timeout_ms: 10_000, ..Default::default() };
        let f = c.prog.facts();
        let mut labels = vec![];
        for (needle, l) in [("$LINENO", "lineno"), ("<<", "here-document"), ("\\\n", "continuation"), ("# ", "comment"), ("\n\n", "blank-line"), ("eval '", "eval-inside"), ("'multi\n", "multi-line-string"), ("lf", "function-lineno")] {
            if text[PROLOGUE.len()..].contains(needle) {
                labels.push(l.to_string());
            }
        }
        if !c.final_newline {
            labels.push("no-final-newline".into());
        }
        let nontrivial = text[PROLOGUE.len()..].contains("$LINENO") && f.max_depth >= 1;
        // guard: bash must give the same result for every delivery of this text
        let bash_file = run_case(ShellKind::Bash, &mk(&Delivery::File));
        if bash_rejects(&bash_file) {
            return Verdict { outcome: Outcome::Skip("bash: syntax error".into()), labels, nontrivial, sample: None, weight: 1 };
        }
        // the whole text must be valid (bash stops reading at `exit`, so running it proves nothing about the rest)
        let mut nspec = mk(&Delivery::File);
        nspec.flags = vec!["-n".into()];
        let bash_n = run_case(ShellKind::Bash, &nspec);
        if !bash_n.status.zero() || !bash_n.stderr.is_empty() {
            return Verdict { outcome: Outcome::Skip("bash -n: the text as a whole is not a valid program".into()), labels, nontrivial, sample: None, weight: 1 };
        }
        if bash_file.status == Status::Timeout {
            return Verdict { outcome: Outcome::Inconclusive("bash timed out".into()), labels, nontrivial, sample: None, weight: 1 };
        }
        for (name, d) in DELIVERIES.iter().skip(1) {
            let b = run_case(ShellKind::Bash, &mk(d));
            if obs_key(&b) != obs_key(&bash_file) {
                return Verdict { outcome: Outcome::Skip(format!("bash itself differs between file and {name}")), labels, nontrivial, sample: None, weight: 1 };
            }
        }
        let brush_file = run_case(ShellKind::Brush, &mk(&Delivery::File));
        if brush_file.panicked() {
            return Verdict { outcome: Outcome::Fail(format!("brush crashed: {}", brush_file.summary())), labels, nontrivial, sample: None, weight: 1 };
        }
        if brush_file.status == Status::Timeout {
            return Verdict { outcome: Outcome::Inconclusive("brush timed out".into()), labels, nontrivial, sample: None, weight: 1 };
        }
        let mut outcome = Outcome::Pass;
        for (name, d) in DELIVERIES.iter().skip(1) {
            let o = run_case(ShellKind::Brush, &mk(d));
            if o.status == Status::Timeout {
                outcome = Outcome::Inconclusive(format!("brush timed out ({name})"));
                break;
            }
            if obs_key(&o) != obs_key(&brush_file) {
                outcome = Outcome::Fail(format!(
                    "delivered as {name}: status {:?}, stdout\n{}\nas file: status {:?}, stdout\n{}\n(bash prints the same for every delivery:\n{})",
                    o.status,
                    bvcommon::exec::trunc(&o.out_lossy(), 1200),
                    brush_file.status,
                    bvcommon::exec::trunc(&brush_file.out_lossy(), 1200),
                    bvcommon::exec::trunc(&bash_file.out_lossy(), 1200)
                ));
                break;
            }
        }
        let sample = json!({"text": bvcommon::exec::trunc(&c.render(), 500), "brush_stdout": bvcommon::exec::trunc(&brush_file.out_lossy(), 300)});
        Verdict { outcome, labels, nontrivial, sample: Some(sample), weight: 5 }
    }
}

pub fn strategy(ctx: &Ctx) -> BoxedStrategy<Case> {
    let raw: Vec<String> = RAW.iter().map(|s| s.to_string()).collect();
    let cfg = GenCfg { depth: ctx.tier.pick(3, 4), max_list: 3, nfuncs: 2, raw, raw_weight: 10, pipes: true, substs: true, evals: true, jumps: true, exits: true, probes: true, no_while: false };
    (prog_strategy(&cfg), proptest::collection::vec(prop_oneof![3 => Just(0u8), 1 => Just(1u8), 1 => Just(2u8), 1 => Just(3u8)], 1..=7), proptest::bool::weighted(0.85))
        .prop_map(|(mut prog, deco, final_newline)| {
            prog.newlines = true;
            strip_toplevel_return(&mut prog);
            Case { prog, deco, final_newline }
        })
        .prop_filter("here-document inside a command substitution", |c| !heredoc_in_substitution(&c.prog))
        .boxed()
}

// ---- stdin: completeness of the text read so far -------------------------------------------

#[derive(Clone, Debug, Serialize, Deserialize)]
pub struct PrefixCase {
    pub case: Case,
    /// number of lines of the program text that are delivered
    pub lines: usize,
    /// whether the last delivered line keeps its newline
    pub newline_at_cut: bool,
    /// deliver through a pipe instead of a file
    pub pipe: bool,
}

pub const STDIN_RAW: &[&str] = &[
    "read -r rl; echo \"got:$rl\"",
    "read -r rl\necho \"got:$rl\"",
    "if t 50 0; then\n  read -r r2\n  echo \"in:$r2\"\nfi",
    "{ cat <<EOF\nh:$((1+1)) x\nEOF\n}",
    "t 40 0 \\\n  && t 41 0",
    "echo 'multi\nline'",
    "x=$(\n  t 43 0\n  t 44 0\n); echo \"x:$x\"",
    "case a in\n  (a) t 45 0 ;;\n  (*) t 46 1 ;;\nesac",
    "t 54 0 |\n  while read -r pl; do echo \"p:$pl\"; done",
    "t 54 0 |\n  while read -r pl; do echo \"p:$pl\"; done",
    "t 52 1 ||\n  t 53 0",
    "lf",
];

impl PrefixCase {
    pub fn text(&self) -> String {
        let full = self.case.text();
        let lines: Vec<&str> = full.split_inclusive('\n').collect();
        let pro = PROLOGUE.split_inclusive('\n').count() + HELPERS.split_inclusive('\n').count();
        let n = (pro + self.lines).min(lines.len());
        let mut t: String = lines[..n].concat();
        if !self.newline_at_cut && t.ends_with('\n') {
            t.pop();
        }
        t
    }
}

pub struct PrefixLayer;

impl Layer for PrefixLayer {
    type Case = PrefixCase;
    fn name(&self) -> String {
        "stdin-prefix".into()
    }
    fn classes(&self, c: &PrefixCase) -> Vec<String> {
        let mut v = crate::c02::classes(&c.case.prog);
        let t = c.text();
        // an external command that reads the shell's own input (only `cat`, once `read` has eaten the first
        // line of the `t 51 0 |` leaf)
        if (t.contains("read -r rl") || t.contains("read -r r2")) && t.contains("\n  cat") {
            v.push("script_stdin_read_by_external_command".to_string());
        }
        v
    }
    fn render(&self, c: &PrefixCase) -> String {
        format!("# pipe: {}\n{}", c.pipe, &c.text()[PROLOGUE.len()..])
    }
    fn shrink_candidates(&self, c: &PrefixCase) -> Vec<PrefixCase> {
        let mut out = vec![];
        if c.lines > 1 {
            out.push(PrefixCase { lines: c.lines - 1, ..c.clone() });
        }
        if c.pipe {
            out.push(PrefixCase { pipe: false, ..c.clone() });
        }
        if c.case.deco.iter().any(|d| *d != 0) {
            out.push(PrefixCase { case: Case { deco: vec![0], ..c.case.clone() }, ..c.clone() });
        }
        for p in c.case.prog.shrink_candidates() {
            out.push(PrefixCase { case: Case { prog: p, ..c.case.clone() }, ..c.clone() });
        }
        out
    }
    fn eval(&self, c: &PrefixCase) -> Verdict {
        let text = c.text();
        let full = c.case.text();
        let cut = text.len() < full.trim_end_matches('\n').len();
        let spec = CaseSpec { script: text.clone(), delivery: Delivery::Stdin, args: vec!["A1".into()], timeout_ms: 10_000, stdin_pipe: c.pipe, ..Default::default() };
        // domain: prefixes of valid programs
        let nspec = CaseSpec { script: full.clone(), flags: vec!["-n".into()], timeout_ms: 10_000, ..Default::default() };
        let bash_n = run_case(ShellKind::Bash, &nspec);
        if !bash_n.status.zero() || !bash_n.stderr.is_empty() {
            return Verdict::skip("bash -n: the full text is not a valid program");
        }
        if heredoc_in_substitution(&c.case.prog) {
            return Verdict::skip("here-document inside a command substitution (bash 5.2 re-parses those wrongly)");
        }
        let bash = run_case(ShellKind::Bash, &spec);
        let brush = run_case(ShellKind::Brush, &spec);
        let body = &text[PROLOGUE.len().min(text.len())..];
        let mut labels = vec![];
        if cut {
            labels.push("cut".to_string());
        }
        if c.pipe {
            labels.push("pipe".into());
        }
        if body.contains("read -r") {
            labels.push("reads-own-stdin".into());
        }
        let incomplete = cut && (bash_rejects(&bash));
        if incomplete {
            labels.push("cut-inside-a-command".into());
        }
        if !c.newline_at_cut {
            labels.push("no-newline-at-cut".into());
        }
        let nontrivial = incomplete || body.contains("read -r");
        if bash.status == Status::Timeout {
            return Verdict { outcome: Outcome::Inconclusive("bash timed out".into()), labels, nontrivial, sample: None, weight: 1 };
        }
        if bash.err_lossy().contains("command substitution: line") {
            // bash 5.2 re-parses the printed form of a function body and trips over here-documents inside $( )
            return Verdict { outcome: Outcome::Skip("bash: error while re-parsing a command substitution".into()), labels, nontrivial, sample: None, weight: 1 };
        }
        if brush.panicked() {
            return Verdict { outcome: Outcome::Fail(format!("brush crashed: {}", brush.summary())), labels, nontrivial, sample: None, weight: 1 };
        }
        if brush.status == Status::Timeout {
            let again = run_case(ShellKind::Brush, &spec);
            let outcome = if again.status == Status::Timeout && bash.wall_ms < 500 { Outcome::Fail(format!("brush hangs on this stdin text (bash finished in {} ms)", bash.wall_ms)) } else { Outcome::Inconclusive("brush timed out once".into()) };
            return Verdict { outcome, labels, nontrivial, sample: None, weight: 1 };
        }
        // what ran, in which order (stdout), and success / failure overall
        let outcome = if bash.stdout != brush.stdout {
            Outcome::Fail(format!("stdout differs.\nbash:\n{}\nbrush:\n{}\nbrush stderr: {}", bvcommon::exec::trunc(&bash.out_lossy(), 1200), bvcommon::exec::trunc(&brush.out_lossy(), 1200), bvcommon::exec::trunc(&brush.err_lossy(), 300)))
        } else if bash.status.zero() != brush.status.zero() {
            Outcome::Fail(format!("status differs: bash {:?} brush {:?}; brush stderr: {}", bash.status, brush.status, bvcommon::exec::trunc(&brush.err_lossy(), 300)))
        } else {
            Outcome::Pass
        };
        let sample = json!({"text": bvcommon::exec::trunc(body, 400), "stdout": bvcommon::exec::trunc(&brush.out_lossy(), 200), "status": format!("{:?}", brush.status)});
        Verdict { outcome, labels, nontrivial, sample: Some(sample), weight: 2 }
    }
}

pub fn prefix_strategy(ctx: &Ctx) -> BoxedStrategy<PrefixCase> {
    let raw: Vec<String> = STDIN_RAW.iter().map(|s| s.to_string()).collect();
    // no LINENO-in-eval leaves here (known finding of the delivery layer), no exits needed
    let cfg = GenCfg { depth: ctx.tier.pick(2, 3), max_list: 3, nfuncs: 2, raw, raw_weight: 12, pipes: true, substs: true, evals: false, jumps: true, exits: true, probes: true, no_while: false };
    (prog_strategy(&cfg), proptest::collection::vec(prop_oneof![4 => Just(0u8), 1 => Just(1u8), 1 => Just(2u8)], 1..=5), 0usize..40, proptest::bool::weighted(0.8), proptest::bool::weighted(0.3), proptest::bool::weighted(0.25), proptest::bool::weighted(0.06))
        .prop_map(|(mut prog, deco, lines, newline_at_cut, whole, pipe, ext_reader)| {
            prog.newlines = true;
            if ext_reader {
                // an external reader of the script's own input (shape of the known finding C15-stdin-readahead)
                prog.main.push(bvcommon::prog::Stmt::Raw("t 51 0 |\n  cat".into()));
            }
            strip_toplevel_return(&mut prog);
            let case = Case { prog, deco, final_newline: true };
            let total = case.text().split_inclusive('\n').count();
            let pro = PROLOGUE.split_inclusive('\n').count() + HELPERS.split_inclusive('\n').count();
            let body_lines = total.saturating_sub(pro).max(1);
            let lines = if whole { body_lines } else { 1 + lines * body_lines / 40 };
            PrefixCase { case, lines: lines.min(body_lines), newline_at_cut, pipe }
        })
        .prop_filter("here-document inside a command substitution", |c| !heredoc_in_substitution(&c.case.prog))
        .boxed()
}

pub fn run(run: &mut PropRun, ctx: &Ctx) {
    run.rule = "delivery layer: multi-line programs from the control-flow grammar (function definitions, continuations, here-documents, multi-line strings and substitutions, comments and blank \
                lines inserted between lines, with and without a final newline, $LINENO probes at top level, in functions, loops, here-documents, eval and command substitutions) delivered as a \
                script file, a -c string, through `source`, through `eval`, and on standard input; oracle: brush's stdout and exit status are the same for all five (checked only for texts where \
                bash 5.2.15 also gives one result for all five); non-trivial = a $LINENO probe and nesting depth >= 1. stdin-prefix layer: the first k lines of such a program (k uniform, cut with or \
                without the newline; leaves that read the script's own stdin included), given on stdin from a file or a pipe; oracle: differential vs bash on stdout (which commands ran, what `read` \
                consumed) and on success/failure; non-trivial = the cut falls inside a command, or a command consumes the shell's own input. cache layer (in process): sequences of 2-10 calls of the memoised \
                entry points (tokenizer, program parser, word parser, arithmetic parser, pattern matcher with its regex cache) over fixed pools of texts, re-issuing texts under other option sets \
                (extglob, posix, sh mode, tilde-after-colon, case-insensitive), in one long-lived multi-threaded process; oracle: each result equals the history-free result (uncached twin of the \
                entry point, or a table filled by fresh child processes); non-trivial = the sequence parses one text under two option sets whose history-free results differ"
        .into();
    run.assumptions.push("bash 5.2.15 reference; stderr texts are not compared".into());
    let n = ctx.tier.pick(1500, 25_000);
    let rep = explore(&DeliveryLayer, strategy(ctx), n, ctx);
    let n64 = n as u64;
    if rep.failures.is_empty() {
        if let Some(m) = check_floors(&rep, &[("lineno", n64 / 3), ("here-document", n64 / 8), ("continuation", n64 / 8), ("comment", n64 / 4), ("no-final-newline", n64 / 12)]) {
            run.fatal = Some(format!("generator degenerate: {m}"));
        }
    }
    run.add(rep);
    let n = ctx.tier.pick(3000, 50_000);
    let rep = explore(&PrefixLayer, prefix_strategy(ctx), n, ctx);
    let n64 = n as u64;
    if rep.failures.is_empty() {
        if let Some(m) = check_floors(&rep, &[("cut-inside-a-command", n64 / 8), ("reads-own-stdin", n64 / 8), ("pipe", n64 / 8)]) {
            run.fatal = Some(format!("generator degenerate: {m}"));
        }
    }
    run.add(rep);
    // cache transparency, in process
    crate::inproc::run_inproc("C15", ctx, run);
}

pub fn replay(layer: &str, case: &serde_json::Value) -> Result<(String, Verdict), String> {
    match layer {
        "delivery" => replay_case(&DeliveryLayer, case),
        "stdin-prefix" => replay_case(&PrefixLayer, case),
        _ => crate::inproc::replay_inproc("C15", layer, case),
    }
}

//! C17 — `wait` really waits: background work is complete and visible when it returns.
//! Generated histories of job launches (simple, compound, pipeline, subshell, function; from top
//! level, functions and loops; durations from a small set so that every finishing order occurs),
//! foreground commands, sleeps, `jobs` queries and waits; invariants on the observed history.

use bvcommon::exec::{run_case, run_case_opts, CaseSpec, Obs, RunOpts, ShellKind, Status};
use bvcommon::report::PropRun;
use bvcommon::runner::{check_floors, explore, replay_case, Ctx, Layer, Outcome, Verdict};
use proptest::prelude::*;
use serde::{Deserialize, Serialize};
use serde_json::json;

#[derive(Clone, Debug, Serialize, Deserialize)]
pub enum Op {
    /// launch job k: duration ms, kind, exit status, launch context
    Launch { dur: u32, kind: String, status: u8, ctx: String },
    Fg,
    Sleep(u32),
    Jobs,
    WaitAll,
    WaitLast,
    /// wait for the pid of the n-th launched job (modulo the number launched so far)
    WaitNth(u8),
}

#[derive(Clone, Debug, Serialize, Deserialize)]
pub struct Case {
    pub ops: Vec<Op>,
    /// 0 = all cpus, else restrict to this many
    pub cpus: u8,
    pub pauses: String,
}

const FUNCS: &str = "jf() { job \"$1\" \"$2\" \"$3\"; }\nlaunch_in_func() { job \"$1\" \"$2\" \"$3\" & }\n";

struct Plan {
    script: String,
    /// per wait marker index: jobs (k) that must be finished when it prints, and whether it is a full wait
    waits: Vec<(usize, Vec<usize>)>,
    launched: usize,
    markers: Vec<usize>,
    fg: usize,
    jobs_queries: usize,
}

impl Case {
    fn plan(&self) -> Plan {
        let mut s = String::from(FUNCS);
        let mut k = 0usize;
        let mut fg = 0usize;
        let mut w = 0usize;
        let mut j = 0usize;
        let mut live: Vec<usize> = vec![];
        let mut waits = vec![];
        let mut markers = vec![];
        let mut last: Option<usize> = None;
        for op in &self.ops {
            match op {
                Op::Launch { dur, kind, status, ctx } => {
                    k += 1;
                    let body = match kind.as_str() {
                        "simple" => format!("job {k} {dur} {status}"),
                        "compound" => {
                            markers.push(k);
                            format!("{{ job {k} {dur}; marker m{k}; ( exit {status} ); }}")
                        }
                        "pipeline" => format!("job {k} {dur} {status} | cat"),
                        "subshell" => format!("( job {k} {dur}; exit {status} )"),
                        "function" => format!("jf {k} {dur} {status}"),
                        _ => {
                            markers.push(k);
                            format!("if job {k} {dur}; then marker m{k}; fi")
                        }
                    };
                    match ctx.as_str() {
                        "func" if kind == "simple" => s.push_str(&format!("launch_in_func {k} {dur} {status}\n")),
                        "loop" => s.push_str(&format!("for _i in 1; do {body} & done\n")),
                        "group" => s.push_str(&format!("{{ {body} & }}\n")),
                        _ => s.push_str(&format!("{body} &\n")),
                    }
                    s.push_str(&format!("p{k}=$!\n"));
                    live.push(k);
                    last = Some(k);
                }
                Op::Fg => {
                    fg += 1;
                    s.push_str(&format!("echo \"fg {fg}\"\n"));
                }
                Op::Sleep(ms) => s.push_str(&format!("sleep 0.{:03}\n", ms)),
                Op::Jobs => {
                    j += 1;
                    s.push_str(&format!("echo \"@J{j}-begin\"; jobs; echo \"@J{j}-end\"\n"));
                }
                Op::WaitAll => {
                    w += 1;
                    s.push_str(&format!("wait; echo \"@W{w} $?\"\n"));
                    waits.push((w, live.clone()));
                    live.clear();
                }
                Op::WaitNth(n) => {
                    if k > 0 {
                        let t = (*n as usize % k) + 1;
                        w += 1;
                        s.push_str(&format!("wait $p{t}; echo \"@W{w} $?\"\n"));
                        waits.push((w, vec![t]));
                        live.retain(|x| *x != t);
                    }
                }
                Op::WaitLast => {
                    if let Some(l) = last {
                        w += 1;
                        s.push_str(&format!("wait $!; echo \"@W{w} $?\"\n"));
                        waits.push((w, vec![l]));
                        live.retain(|x| *x != l);
                    }
                }
            }
        }
        w += 1;
        s.push_str(&format!("wait; echo \"@W{w} $?\"\n"));
        waits.push((w, live.clone()));
        s.push_str("echo \"@END\"\n");
        Plan { script: s, waits, launched: k, markers, fg, jobs_queries: j }
    }
    pub fn render(&self) -> String {
        format!("# cpus: {} pauses: {}\n{}", self.cpus, self.pauses, &self.plan().script[FUNCS.len()..])
    }
}

/// the invariants on one observation; None = they hold
fn check(plan: &Plan, o: &Obs) -> Option<String> {
    let out = o.out_lossy();
    let lines: Vec<&str> = out.lines().collect();
    if !lines.contains(&"@END") {
        return Some(format!("the script did not reach its end (status {:?}); stdout:\n{}", o.status, bvcommon::exec::trunc(&out, 600)));
    }
    // nothing lost, nothing run twice
    for k in 1..=plan.launched {
        match o.files.get(&format!("out.{k}")) {
            None => return Some(format!("job {k} never ran (no out.{k}) although the final wait returned")),
            Some(c) => {
                let want = format!("{k}\n");
                if c != want.as_bytes() {
                    return Some(format!("job {k} left {:?} in out.{k}, expected exactly one line", String::from_utf8_lossy(c)));
                }
            }
        }
        // (substring, not whole line: a job's line may land in the middle of a line the shell is printing)
        let n = out.matches(&format!("done {k}\n")).count();
        if n != 1 {
            return Some(format!("`done {k}` printed {n} times"));
        }
    }
    for k in &plan.markers {
        if !o.files.contains_key(&format!("marker.m{k}")) {
            return Some(format!("the compound job {k} did not complete its second command (marker.m{k} missing) before the final wait returned"));
        }
    }
    // happens-before: everything a wait covers is printed before the line that follows the wait
    for (w, jobs) in &plan.waits {
        let Some(wpos) = out.find(&format!("@W{w} ")) else {
            return Some(format!("marker @W{w} missing"));
        };
        for k in jobs {
            match out.find(&format!("done {k}\n")) {
                Some(p) if p < wpos => {}
                Some(p) => return Some(format!("wait #{w} returned (byte {wpos} of stdout) before job {k} had finished (its output is at byte {p})")),
                None => return Some(format!("job {k} printed nothing")),
            }
        }
    }
    // foreground order
    let mut prev = 0usize;
    for l in &lines {
        if let Some(n) = l.strip_prefix("fg ") {
            let n: usize = n.parse().unwrap_or(0);
            if n != prev + 1 {
                return Some(format!("foreground lines out of order: fg {n} after fg {prev}"));
            }
            prev = n;
        }
    }
    if prev != plan.fg {
        return Some(format!("{} of {} foreground lines printed", prev, plan.fg));
    }
    // distinct job numbers among the jobs listed at one time
    for j in 1..=plan.jobs_queries {
        let b = lines.iter().position(|l| *l == format!("@J{j}-begin"));
        let e = lines.iter().position(|l| *l == format!("@J{j}-end"));
        if let (Some(b), Some(e)) = (b, e) {
            let mut seen = std::collections::BTreeSet::new();
            for l in &lines[b + 1..e] {
                if let Some(rest) = l.strip_prefix('[') {
                    if let Some(end) = rest.find(']') {
                        let num = &rest[..end];
                        if num.chars().all(|c| c.is_ascii_digit()) && !seen.insert(num.to_string()) {
                            return Some(format!("`jobs` query #{j} lists job number [{num}] twice:\n{}", lines[b + 1..e].join("\n")));
                        }
                    }
                }
            }
        }
    }
    None
}

pub struct Jobs;

impl Layer for Jobs {
    type Case = Case;
    fn name(&self) -> String {
        "jobs".into()
    }
    fn render(&self, c: &Case) -> String {
        c.render()
    }
    fn shrink_candidates(&self, c: &Case) -> Vec<Case> {
        let mut out = vec![];
        if !c.pauses.is_empty() {
            out.push(Case { pauses: String::new(), ..c.clone() });
        }
        if c.cpus != 0 {
            out.push(Case { cpus: 0, ..c.clone() });
        }
        for i in 0..c.ops.len() {
            let mut ops = c.ops.clone();
            ops.remove(i);
            out.push(Case { ops, ..c.clone() });
        }
        for i in 0..c.ops.len() {
            if let Op::Launch { dur, kind, status, ctx } = &c.ops[i] {
                if kind != "simple" || ctx != "top" || *status != 0 {
                    let mut ops = c.ops.clone();
                    ops[i] = Op::Launch { dur: *dur, kind: "simple".into(), status: 0, ctx: "top".into() };
                    out.push(Case { ops, ..c.clone() });
                }
            }
        }
        out
    }
    fn eval(&self, c: &Case) -> Verdict {
        let plan = c.plan();
        let cpus: Vec<usize> = (0..c.cpus as usize).collect();
        let spec = CaseSpec { script: plan.script.clone(), collect_files: true, timeout_ms: 10_000, cpus, ..Default::default() };
        let mut labels = vec![format!("jobs:{}", plan.launched.min(8)), format!("cpus:{}", c.cpus)];
        for op in &c.ops {
            match op {
                Op::Launch { kind, ctx, .. } => {
                    labels.push(format!("kind:{kind}"));
                    labels.push(format!("from:{ctx}"));
                }
                Op::Jobs => labels.push("jobs-query".into()),
                Op::WaitLast | Op::WaitNth(_) => labels.push("wait-pid".into()),
                Op::WaitAll => labels.push("repeated-wait".into()),
                _ => {}
            }
        }
        labels.sort();
        labels.dedup();
        if !c.pauses.is_empty() {
            labels.push("schedule-forced".into());
        }
        let durs: std::collections::BTreeSet<u32> = c.ops.iter().filter_map(|o| if let Op::Launch { dur, .. } = o { Some(*dur) } else { None }).collect();
        let nontrivial = plan.launched >= 2 && durs.len() >= 2;
        let o = if c.pauses.is_empty() { run_case(ShellKind::Brush, &spec) } else { run_case_opts(ShellKind::Brush, &spec, &RunOpts { brush_env: vec![("BRUSH_VERIF_PAUSES".into(), c.pauses.clone())], ..Default::default() }) };
        let sample = json!({"script": bvcommon::exec::trunc(&c.render(), 500), "stdout": bvcommon::exec::trunc(&o.out_lossy(), 300)});
        if o.panicked() {
            return Verdict { outcome: Outcome::Fail(format!("brush crashed: {}", o.summary())), labels, nontrivial, sample: Some(sample), weight: 1 };
        }
        if o.status == Status::Timeout {
            let b = run_case(ShellKind::Bash, &spec);
            let again = run_case(ShellKind::Brush, &spec);
            let outcome = if again.status == Status::Timeout && b.status != Status::Timeout && b.wall_ms < 1500 { Outcome::Fail(format!("brush never finishes (bash: {} ms)", b.wall_ms)) } else { Outcome::Inconclusive("timeout".into()) };
            return Verdict { outcome, labels, nontrivial, sample: Some(sample), weight: 1 };
        }
        let outcome = match check(&plan, &o) {
            None => Outcome::Pass,
            Some(reason) => {
                // the invariants must hold for bash on the same script, else the harness is wrong about it
                let b = run_case(ShellKind::Bash, &spec);
                match check(&plan, &b) {
                    None => Outcome::Fail(reason),
                    Some(br) => Outcome::Skip(format!("bash violates the invariant too: {}", br.lines().next().unwrap_or(""))),
                }
            }
        };
        Verdict { outcome, labels, nontrivial, sample: Some(sample), weight: 1 }
    }
}

pub fn strategy(_ctx: &Ctx) -> BoxedStrategy<Case> {
    let launch = (
        proptest::sample::select(vec![0u32, 0, 10, 30, 60, 120]),
        proptest::sample::select(vec!["simple", "simple", "compound", "pipeline", "subshell", "function", "if"]),
        prop_oneof![4 => Just(0u8), 1 => Just(3u8)],
        proptest::sample::select(vec!["top", "top", "func", "loop", "group"]),
    )
        .prop_map(|(dur, kind, status, ctx)| Op::Launch { dur, kind: kind.to_string(), status, ctx: ctx.to_string() });
    let op = prop_oneof![
        8 => launch,
        2 => Just(Op::Fg),
        2 => proptest::sample::select(vec![5u32, 20, 50, 90]).prop_map(Op::Sleep),
        2 => Just(Op::Jobs),
        1 => Just(Op::WaitAll),
        1 => Just(Op::WaitLast),
        2 => (0u8..8).prop_map(Op::WaitNth),
    ];
    let pause = prop_oneof![
        4 => Just(String::new()),
        1 => Just("job_task_start=30".to_string()),
        1 => Just("wait_all_start=40".to_string()),
        1 => Just("job_task_start=15,wait_all_start=60".to_string()),
    ];
    (proptest::collection::vec(op, 1..=12), proptest::sample::select(vec![0u8, 0, 1, 2]), pause)
        .prop_map(|(mut ops, cpus, pauses)| {
            // at most 8 launches
            let mut n = 0;
            ops.retain(|o| {
                if matches!(o, Op::Launch { .. }) {
                    n += 1;
                    n <= 8
                } else {
                    true
                }
            });
            if n == 0 {
                ops.insert(0, Op::Launch { dur: 30, kind: "simple".into(), status: 0, ctx: "top".into() });
            }
            Case { ops, cpus, pauses }
        })
        .boxed()
}

pub fn run(run: &mut PropRun, ctx: &Ctx) {
    run.rule = "histories of up to 12 operations: launching 1-8 background jobs (external command, brace group with a second command, pipeline, subshell, function, if-command; durations from {0, 10, 30, \
                60, 120} ms; exit statuses 0/3; launched from top level, a function, a loop, a group), foreground echo lines, sleeps, `jobs` queries, `wait`, `wait $!` and `wait <pid of an earlier job>`; always a final `wait`; run \
                on 1, 2 or all CPUs, optionally with the pause points at job-task start and at the start of wait; invariants: when the line after a `wait` is printed every job that wait covers has \
                printed its line; after the final wait every job's file holds exactly one line and every compound job's marker file exists (nothing lost, nothing run twice); foreground lines \
                appear in order; no `jobs` listing shows one job number twice; checked on brush and, when brush fails one, on bash (must hold there); non-trivial = at least 2 jobs with at least 2 \
                different durations"
        .into();
    run.assumptions.push("job durations are real sleeps of 0-120 ms; the invariants do not depend on how long anything takes".into());
    let n = ctx.tier.pick(2500, 40_000);
    let rep = explore(&Jobs, strategy(ctx), n, ctx);
    let n64 = n as u64;
    if rep.failures.is_empty() {
        if let Some(m) = check_floors(&rep, &[("jobs-query", n64 / 4), ("wait-pid", n64 / 8), ("schedule-forced", n64 / 4), ("cpus:1", n64 / 6), ("kind:pipeline", n64 / 4), ("kind:compound", n64 / 4), ("from:func", n64 / 8)]) {
            run.fatal = Some(format!("generator degenerate: {m}"));
        }
    }
    run.add(rep);
}

pub fn replay(layer: &str, case: &serde_json::Value) -> Result<(String, Verdict), String> {
    match layer {
        "jobs" => replay_case(&Jobs, case),
        _ => Err(format!("C17: unknown layer {layer}")),
    }
}

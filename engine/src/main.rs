//! bvengine — process-level checks and orchestration of the in-process worker.

mod c01;
mod c02;
mod c03;
mod c04;
mod c05;
mod c06;
mod c07;
mod c08;
mod c09;
mod c10;
mod c11;
mod c12;
mod c13;
mod c14;
mod c15;
mod c16;
mod c17;
mod c18;
mod c19;
mod c20;
mod inproc;
mod util;

use bvcommon::report::{PropRun, ReplayFile, Replayed};
use bvcommon::runner::{Ctx, Outcome, Tier, Verdict};
use std::path::Path;

fn usage() -> ! {
    eprintln!("usage: bvengine <ID> quick|thorough\n       bvengine <ID> --replay <file>");
    std::process::exit(2);
}

/// replay dispatch: (layer, case) -> (rendered, verdict)
pub fn replay_dispatch(prop: &str, layer: &str, case: &serde_json::Value) -> Result<(String, Verdict), String> {
    match prop {
        "C01" => c01::replay(layer, case),
        "C02" => c02::replay(layer, case),
        "C03" => c03::replay(layer, case),
        "C04" => c04::replay(layer, case),
        "C05" => c05::replay(layer, case),
        "C06" => c06::replay(layer, case),
        "C07" => c07::replay(layer, case),
        "C08" => c08::replay(layer, case),
        "C09" => c09::replay(layer, case),
        "C10" => c10::replay(layer, case),
        "C11" => c11::replay(layer, case),
        "C12" => c12::replay(layer, case),
        "C13" => c13::replay(layer, case),
        "C14" => c14::replay(layer, case),
        "C15" => c15::replay(layer, case),
        "C16" => c16::replay(layer, case),
        "C17" => c17::replay(layer, case),
        "C18" => c18::replay(layer, case),
        "C19" => c19::replay(layer, case),
        "C20" => c20::replay(layer, case),
        _ => Err(format!("no replay handler for property {prop}")),
    }
}

pub fn replay_path(path: &Path) -> Replayed {
    let s = match std::fs::read_to_string(path) {
        Ok(s) => s,
        Err(e) => return Replayed::Error(format!("{}: {e}", path.display())),
    };
    let rf: ReplayFile = match serde_json::from_str(&s) {
        Ok(r) => r,
        Err(e) => return Replayed::Error(format!("{}: {e}", path.display())),
    };
    match replay_dispatch(&rf.property, &rf.layer, &rf.case) {
        Ok((_, v)) => match v.outcome {
            Outcome::Fail(d) => Replayed::Fails(d),
            Outcome::Pass => Replayed::Passes,
            Outcome::Skip(w) => Replayed::Error(format!("replay case skipped: {w}")),
            Outcome::Inconclusive(w) => Replayed::Error(format!("replay inconclusive: {w}")),
        },
        Err(e) => Replayed::Error(e),
    }
}

fn main() {
    let args: Vec<String> = std::env::args().collect();
    if args.len() < 3 {
        usage();
    }
    let prop = args[1].clone();
    let threads = std::env::var("BVERIF_THREADS").ok().and_then(|s| s.parse().ok()).unwrap_or(20usize);
    rayon::ThreadPoolBuilder::new().num_threads(threads).build_global().ok();
    let seed: u64 = std::env::var("VERIF_SEED").ok().and_then(|s| s.parse().ok()).unwrap_or(20260925);

    if args[2] == "--replay" {
        if args.len() < 4 {
            usage();
        }
        let path = Path::new(&args[3]);
        let s = std::fs::read_to_string(path).unwrap_or_else(|e| {
            eprintln!("cannot read {}: {e}", path.display());
            std::process::exit(2)
        });
        let rf: ReplayFile = serde_json::from_str(&s).unwrap_or_else(|e| {
            eprintln!("bad replay file: {e}");
            std::process::exit(2)
        });
        let code = match replay_dispatch(&rf.property, &rf.layer, &rf.case) {
            Ok((rendered, v)) => {
                println!("--- case ({} / {}) ---\n{}", rf.property, rf.layer, rendered);
                if let Some(s) = &v.sample {
                    println!("--- observed ---\n{}", serde_json::to_string_pretty(s).unwrap_or_default());
                }
                match v.outcome {
                    Outcome::Fail(d) => {
                        println!("--- verdict: FAIL ---\n{d}");
                        println!("VIOLATION property={} replay={}", rf.property, path.display());
                        1
                    }
                    Outcome::Pass => {
                        println!("--- verdict: pass ---");
                        0
                    }
                    other => {
                        println!("--- verdict: {:?} ---", other);
                        2
                    }
                }
            }
            Err(e) => {
                eprintln!("{e}");
                2
            }
        };
        bvcommon::exec::cleanup_scratch();
        std::process::exit(code);
    }

    let tier = match std::env::var("VERIF_TIER").ok().as_deref().unwrap_or(args[2].as_str()) {
        "thorough" => Tier::Thorough,
        _ => match args[2].as_str() {
            "thorough" => Tier::Thorough,
            "quick" => Tier::Quick,
            _ => usage(),
        },
    };
    let mut run = PropRun::new(&prop, tier, seed);
    let mut ctx = Ctx::new(&prop, tier, seed);
    run.apply_known(&mut ctx, &replay_path);
    match prop.as_str() {
        "C01" => c01::run(&mut run, &ctx),
        "C02" => c02::run(&mut run, &ctx),
        "C03" => c03::run(&mut run, &ctx),
        "C04" => c04::run(&mut run, &ctx),
        "C05" => c05::run(&mut run, &ctx),
        "C06" => c06::run(&mut run, &ctx),
        "C07" => c07::run(&mut run, &ctx),
        "C08" => c08::run(&mut run, &ctx),
        "C09" => c09::run(&mut run, &ctx),
        "C10" => c10::run(&mut run, &ctx),
        "C11" => c11::run(&mut run, &ctx),
        "C12" => c12::run(&mut run, &ctx),
        "C13" => c13::run(&mut run, &ctx),
        "C14" => c14::run(&mut run, &ctx),
        "C15" => c15::run(&mut run, &ctx),
        "C16" => c16::run(&mut run, &ctx),
        "C17" => c17::run(&mut run, &ctx),
        "C18" => c18::run(&mut run, &ctx),
        "C19" => c19::run(&mut run, &ctx),
        "C20" => c20::run(&mut run, &ctx),
        _ => {
            eprintln!("unknown property {prop}");
            std::process::exit(2);
        }
    }
    let code = run.finish();
    bvcommon::exec::cleanup_scratch();
    std::process::exit(code);
}

//! C13 — shell-quoted output re-reads to the original values.
//! Round trip: brush prints a value in each quoting form; brush and bash `eval` the printed text;
//! the recreated value / keys / attributes must equal the original byte for byte.

use bvcommon::exec::{run_case, CaseSpec, Obs, ShellKind, Status};
use bvcommon::report::PropRun;
use bvcommon::runner::{enumerate, explore, replay_case, Ctx, Layer, Outcome, Verdict};
use proptest::prelude::*;
use serde::{Deserialize, Serialize};
use serde_json::json;
use std::collections::BTreeMap;

#[derive(Clone, Debug, Serialize, Deserialize)]
pub struct Case {
    pub v: String,
    /// restrict the judgement to these forms (replay files of single findings); None = all
    #[serde(default)]
    pub forms: Option<Vec<String>>,
}

pub const ALPHABET: &[&str] = &[
    "'", "\"", "\\", "$", "`", "!", " ", "\t", "\n", "\r", "\u{1}", "\u{1b}", "\u{7f}", "é", "€", "-", "~", "#", "=", "a", "*", "?", "[", "]", "{", "}", "(", ")", ";", "&", "|", "<", ">", "%", "^", ",", ":", "@", "0", "+",
];

/// forms whose producer and reader are given below
pub const FORMS: &[&str] = &["q", "qf", "Q", "A", "dp", "dpx", "dpa", "dpA", "set", "exp", "alias", "trap", "xtrace", "xassign"];

/// the producer: every form's text goes to its own file
const PRODUCER: &str = r#"v=$BV_V
printf %q "$v" > T.q
printf '%s=%q' zq "$v" > T.qf
printf %s "${v@Q}" > T.Q
printf %s "${v@A}" > T.A
declare -p v > T.dp
declare -x vx="$v"; declare -p vx > T.dpx
arr=("$v" "x$v" "" "$v$v"); arr[7]=$v; declare -p arr > T.dpa
declare -A m; m[k]=$v; if [ -n "$v" ]; then m[$v]=val; fi; declare -p m > T.dpA
zzv=$v; set > T.set
export zzx="$v"; export -p > T.exp
alias zza="$v"; alias zza > T.alias
trap -- "$v" USR1; trap -p USR1 > T.trap
{ set -x; : "$v"; { set +x; } 2>/dev/null; } 2> T.xtrace
{ set -x; xa=$v; { set +x; } 2>/dev/null; } 2> T.xassign
echo "@END"
"#;

/// the reader: evaluates each text (prepared by the harness in E.<form>) and writes what it recreated;
/// one subshell per form, so that a text that is a syntax error (fatal for `eval` in brush) spoils only its own form
const READER: &str = r#"rd() { T=$(cat "E.$1"; echo x); T=${T%x}; }
( rd q; eval "r=$T"; printf %s "$r" > R.q )
( rd qf; unset zq; eval "$T"; printf %s "$zq" > R.qf )
( rd Q; eval "r=$T"; printf %s "$r" > R.Q )
( rd A; unset v; eval "$T"; printf %s "$v" > R.A )
( rd dp; unset v; eval "$T"; printf %s "$v" > R.dp )
( rd dpx; unset vx; eval "$T"; printf '%s\0' "$vx" "${vx@a}" > R.dpx )
( rd dpa; unset arr; eval "$T"; printf '%s\0' "${#arr[@]}" "${!arr[@]}" "${arr[@]}" > R.dpa )
( rd dpA; unset m; eval "$T"; printf '%s\0' "${#m[@]}" "${m[k]}" > R.dpA; if [ -n "$BV_V" ]; then printf '%s\0' "${m[$BV_V]}" >> R.dpA; fi )
( rd set; unset zzv; eval "$T"; printf %s "$zzv" > R.set )
( rd exp; unset zzx; eval "$T"; printf '%s\0' "$zzx" "${zzx@a}" > R.exp )
( rd alias; unalias zza 2>/dev/null; eval "$T"; alias zza > R.alias.a 2>&1; unalias zza 2>/dev/null; alias zza="$BV_V"; alias zza > R.alias.b 2>&1 )
( rd trap; eval "$T"; trap -p USR1 > R.trap.a 2>&1; trap - USR1; trap -- "$BV_V" USR1; trap -p USR1 > R.trap.b 2>&1 )
( rd xtrace; eval "set -- $T"; printf '%s\0' "$#" "$1" > R.xtrace )
( rd xassign; unset xa; eval "$T"; printf %s "$xa" > R.xassign )
echo "@END"
"#;

fn nul_join(parts: &[&str]) -> Vec<u8> {
    let mut out = vec![];
    for p in parts {
        out.extend_from_slice(p.as_bytes());
        out.push(0);
    }
    out
}

/// what the reader must have written for each form
fn expected(v: &str) -> BTreeMap<&'static str, Vec<u8>> {
    let mut m = BTreeMap::new();
    for f in ["q", "qf", "Q", "A", "dp", "set", "xassign"] {
        m.insert(f, v.as_bytes().to_vec());
    }
    m.insert("dpx", nul_join(&[v, "x"]));
    m.insert("exp", nul_join(&[v, "x"]));
    let xv = format!("x{v}");
    let vv = format!("{v}{v}");
    m.insert("dpa", nul_join(&["5", "0", "1", "2", "3", "7", v, &xv, "", &vv, v]));
    if v.is_empty() {
        m.insert("dpA", nul_join(&["1", v]));
    } else if v == "k" {
        m.insert("dpA", nul_join(&["1", "val", "val"]));
    } else {
        m.insert("dpA", nul_join(&["2", v, "val"]));
    }
    m.insert("xtrace", nul_join(&["1", v]));
    m
}

/// texts handed to the reader, cut out of the producer's files
fn texts(files: &BTreeMap<String, Vec<u8>>) -> BTreeMap<&'static str, Vec<u8>> {
    let mut m = BTreeMap::new();
    let get = |n: &str| files.get(n).cloned().unwrap_or_default();
    for f in ["q", "qf", "Q", "A", "dp", "dpx", "dpa", "dpA", "alias", "trap"] {
        m.insert(FORMS.iter().copied().find(|x| *x == f).unwrap(), get(&format!("T.{f}")));
    }
    // `set` / `export -p`: sorted listings; our names sort last, take from their line to the end
    let from = |data: &[u8], start: &[u8]| -> Vec<u8> {
        let mut i = 0;
        while i < data.len() {
            if data[i..].starts_with(start) && (i == 0 || data[i - 1] == b'\n') {
                return data[i..].to_vec();
            }
            i += 1;
        }
        vec![]
    };
    m.insert("set", from(&get("T.set"), b"zzv="));
    m.insert("exp", from(&get("T.exp"), b"declare -x zzx"));
    // xtrace: "+ : <word>\n" and "+ xa=<word>\n"
    let strip = |data: Vec<u8>, pre: &[u8]| -> Vec<u8> {
        let mut d = data;
        if d.starts_with(pre) {
            d = d[pre.len()..].to_vec();
        }
        if d.ends_with(b"\n") {
            d.pop();
        }
        d
    };
    m.insert("xtrace", strip(get("T.xtrace"), b"+ : "));
    m.insert("xassign", strip(get("T.xassign"), b"+ "));
    m
}

fn spec_producer(v: &str) -> CaseSpec {
    CaseSpec { script: PRODUCER.to_string(), env: vec![("BV_V".into(), v.to_string())], collect_files: true, timeout_ms: 10_000, ..Default::default() }
}

fn spec_reader(v: &str, t: &BTreeMap<&'static str, Vec<u8>>) -> Option<CaseSpec> {
    let mut files = vec![];
    for (k, data) in t {
        // CaseSpec files are strings: the texts are valid UTF-8 whenever the producer kept the value intact
        files.push((format!("E.{k}"), String::from_utf8(data.clone()).ok()?));
    }
    Some(CaseSpec { script: READER.to_string(), env: vec![("BV_V".into(), v.to_string())], files, collect_files: true, timeout_ms: 10_000, ..Default::default() })
}

fn lossy(b: &[u8]) -> String {
    bvcommon::exec::trunc(&String::from_utf8_lossy(b).replace('\0', "␀"), 300)
}

/// mismatching forms of one producer/reader pair: (form, description)
fn judge_reader(v: &str, t: &BTreeMap<&'static str, Vec<u8>>, r: &Obs) -> Vec<(String, String)> {
    let mut bad = vec![];
    let exp = expected(v);
    for f in FORMS {
        let text = t.get(f).cloned().unwrap_or_default();
        match *f {
            "alias" | "trap" => {
                let a = r.files.get(&format!("R.{f}.a")).cloned().unwrap_or_default();
                let b = r.files.get(&format!("R.{f}.b")).cloned().unwrap_or_default();
                if a != b {
                    bad.push((f.to_string(), format!("printed text {:?} recreates {:?}, the original value gives {:?}", lossy(&text), lossy(&a), lossy(&b))));
                }
            }
            _ => {
                let got = r.files.get(&format!("R.{f}")).cloned().unwrap_or_default();
                let want = exp.get(f).cloned().unwrap_or_default();
                if got != want {
                    bad.push((f.to_string(), format!("printed text {:?} recreates {:?}, expected {:?}", lossy(&text), lossy(&got), lossy(&want))));
                }
            }
        }
    }
    bad
}

pub struct RoundTrip {
    pub name: &'static str,
    /// classes of listed findings that still reproduce; each hides one form for the values its predicate
    /// selects (counted under the label `excluded-form:<form>`), every other form is still judged
    pub known: std::collections::BTreeSet<String>,
}

/// known-finding class of a (form, value) pair
pub fn form_class(form: &str, v: &str) -> Option<&'static str> {
    match form {
        "trap" if v.contains('\'') => Some("trap_listing_single_quote"),
        "qf" if v.contains(":~") || v.contains("=~") => Some("printf_q_in_longer_format_inner_tilde"),
        _ => None,
    }
}

impl Layer for RoundTrip {
    type Case = Case;
    fn name(&self) -> String {
        self.name.into()
    }
    fn classes(&self, _c: &Case) -> Vec<String> {
        vec![]
    }
    fn render(&self, c: &Case) -> String {
        format!("{:?}", c.v)
    }
    fn shrink_candidates(&self, c: &Case) -> Vec<Case> {
        let cs: Vec<char> = c.v.chars().collect();
        let mut out = vec![];
        for i in 0..cs.len() {
            let mut n = cs.clone();
            n.remove(i);
            out.push(Case { v: n.into_iter().collect(), forms: c.forms.clone() });
        }
        out
    }
    fn eval(&self, c: &Case) -> Verdict {
        let v = &c.v;
        let mut labels = vec![];
        for (l, pred) in [
            ("single-quote", v.contains('\'')),
            ("double-quote", v.contains('"')),
            ("backslash", v.contains('\\')),
            ("dollar-or-backquote", v.contains('$') || v.contains('`')),
            ("newline-or-cr", v.contains('\n') || v.contains('\r')),
            ("control", v.chars().any(|ch| (ch as u32) < 32 && ch != '\n' && ch != '\t' && ch != '\r') || v.contains('\u{7f}')),
            ("multi-byte", !v.is_ascii()),
            ("leading-special", v.starts_with(['-', '~', '#', '='])),
            ("empty", v.is_empty()),
        ] {
            if pred {
                labels.push(l.to_string());
            }
        }
        let nontrivial = v.chars().any(|ch| !ch.is_ascii_alphanumeric());
        let p = run_case(ShellKind::Brush, &spec_producer(v));
        if p.panicked() {
            return Verdict { outcome: Outcome::Fail(format!("brush crashed while printing: {}", p.summary())), labels, nontrivial, sample: None, weight: 1 };
        }
        if p.status == Status::Timeout {
            return Verdict { outcome: Outcome::Inconclusive("producer timed out".into()), labels, nontrivial, sample: None, weight: 1 };
        }
        if !p.out_lossy().contains("@END") {
            return Verdict { outcome: Outcome::Fail(format!("the printing script did not finish: {}", p.summary())), labels, nontrivial, sample: None, weight: 1 };
        }
        let t = texts(&p.files);
        let mut failures: Vec<String> = vec![];
        let mut guard_bash: Option<(BTreeMap<&'static str, Vec<u8>>, Obs)> = None;
        match spec_reader(v, &t) {
            None => failures.push("a printed text is not valid UTF-8 although the value is".to_string()),
            Some(rs) => {
                for (rname, kind) in [("brush", ShellKind::Brush), ("bash", ShellKind::Bash)] {
                    let r = run_case(kind, &rs);
                    if kind == ShellKind::Brush && r.panicked() {
                        failures.push(format!("brush crashed while reading back: {}", r.summary()));
                        continue;
                    }
                    for (form, d) in judge_reader(v, &t, &r) {
                        if let Some(only) = &c.forms {
                            if !only.contains(&form) {
                                continue;
                            }
                        }
                        if c.forms.is_none() {
                            if let Some(cl) = form_class(&form, v) {
                                if self.known.contains(cl) {
                                    let l = format!("excluded-form:{form}");
                                    if !labels.contains(&l) {
                                        labels.push(l);
                                    }
                                    continue;
                                }
                            }
                        }
                        // guard: the harness itself must work for this form and value with bash on both sides
                        if guard_bash.is_none() {
                            let bp = run_case(ShellKind::Bash, &spec_producer(v));
                            let bt = texts(&bp.files);
                            if let Some(brs) = spec_reader(v, &bt) {
                                let br = run_case(ShellKind::Bash, &brs);
                                guard_bash = Some((bt, br));
                            }
                        }
                        let harness_ok = match &guard_bash {
                            Some((bt, br)) => !judge_reader(v, bt, br).iter().any(|(f, _)| *f == form),
                            None => false,
                        };
                        if harness_ok {
                            failures.push(format!("form {form}, read back by {rname}: {d}"));
                        } else {
                            labels.push(format!("guard-skip:{form}"));
                        }
                    }
                }
            }
        }
        let outcome = if failures.is_empty() { Outcome::Pass } else { Outcome::Fail(failures.join("\n")) };
        let sample = json!({"value": v, "printf_q": lossy(t.get("q").map(|x| x.as_slice()).unwrap_or(b"")), "declare_p": lossy(t.get("dp").map(|x| x.as_slice()).unwrap_or(b""))});
        Verdict { outcome, labels, nontrivial, sample: Some(sample), weight: (FORMS.len() * 2) as u64 }
    }
}

pub fn all_values(max: usize) -> impl Iterator<Item = Case> {
    (0..=max).flat_map(|len| {
        let n = ALPHABET.len();
        let total = n.pow(len as u32);
        (0..total).map(move |mut idx| {
            let mut s = String::new();
            for _ in 0..len {
                s.push_str(ALPHABET[idx % n]);
                idx /= n;
            }
            Case { v: s, forms: None }
        })
    })
}

pub fn random_values() -> BoxedStrategy<Case> {
    let ch = prop_oneof![
        6 => proptest::sample::select(ALPHABET.to_vec()).prop_map(|s| s.to_string()),
        2 => "[a-zA-Z0-9_./]".prop_map(|s| s),
        1 => proptest::char::range('\u{a0}', '\u{2fff}').prop_map(|c| c.to_string()),
        1 => proptest::char::range('\u{1}', '\u{1f}').prop_map(|c| c.to_string()),
        // shapes that are syntax when left unquoted: brace expressions, tilde prefixes, assignments, globs
        1 => proptest::sample::select(vec!["{,}", "{a,b}", "{1..3}", "~/", ":~", "=~", "a=b", "[k]=v", "$(x)", "${y}", "*(z)", "!!", "#c"]).prop_map(|s| s.to_string()),
    ];
    proptest::collection::vec(ch, 1..=30).prop_map(|v| Case { v: v.concat(), forms: None }).boxed()
}

pub fn run(run: &mut PropRun, ctx: &Ctx) {
    run.rule = "every string over a 40-character alphabet of quoting-relevant characters (quotes, backslash, $, backquote, !, blank, tab, newline, CR, control characters, DEL, multi-byte, leading - ~ # =, \
                glob and operator characters) up to length 2 (quick) / 3 (thorough), plus random strings of 3-40 characters; each is printed by brush with printf %q (alone and inside a longer format), ${v@Q}, ${v@A}, declare -p \
                (scalar, exported scalar, sparse indexed array with the value in 5 elements, associative array with the value as a key and as an element), set, export -p, alias, trap -p and the \
                set -x trace of an argument and of an assignment; each printed text is given to eval in brush and in bash; oracle: the recreated value, element keys, element count and attribute \
                letters equal the original byte for byte (for alias and trap: the reader's own listing after eval equals its listing after defining the original value directly); a mismatch counts \
                only if the same form and value round-trips with bash on both sides (harness guard); non-trivial = the value contains a non-alphanumeric character"
        .into();
    run.assumptions.push("bash 5.2.15 as second reader; values are valid UTF-8 without NUL".into());
    let max = ctx.tier.pick(2, 3);
    let expected: u64 = (0..=max).map(|l| (ALPHABET.len() as u64).pow(l as u32)).sum();
    let known = ctx.active_classes.clone().into_iter().collect::<std::collections::BTreeSet<String>>();
    run.add(enumerate(&RoundTrip { name: "exhaustive", known: known.clone() }, all_values(max), ctx, true, expected));
    let n = ctx.tier.pick(4000, 60_000);
    let rep = explore(&RoundTrip { name: "random", known }, random_values(), n, ctx);
    run.add(rep);
}

pub fn replay(layer: &str, case: &serde_json::Value) -> Result<(String, Verdict), String> {
    match layer {
        "exhaustive" => replay_case(&RoundTrip { name: "exhaustive", known: Default::default() }, case),
        "random" => replay_case(&RoundTrip { name: "random", known: Default::default() }, case),
        _ => Err(format!("C13: unknown layer {layer}")),
    }
}

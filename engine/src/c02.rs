//! C02 — control flow and `$?` of compound commands equal bash's (differential).

use crate::util::pair_sample;
use bvcommon::diff::{judge, DiffCfg};
use bvcommon::exec::CaseSpec;
use bvcommon::prog::{prog_strategy, GenCfg, Prog};
use bvcommon::report::PropRun;
use bvcommon::runner::{check_floors, explore, replay_case, Ctx, Layer, Outcome, Verdict};

pub struct Diff;

pub fn labels(p: &Prog) -> (Vec<String>, bool) {
    let f = p.facts();
    let mut l: Vec<String> = vec![];
    let mut push = |c: bool, s: &str| {
        if c {
            l.push(s.to_string())
        }
    };
    push(f.jump_n2, "jump-n>=2");
    push(f.jump_beyond_depth, "jump-n>depth");
    push(f.jump_outside_loop, "jump-outside-loop");
    push(f.jump_nonpositive, "jump-n<=0");
    push(f.jump_in_cond, "jump-in-condition");
    push(f.jump_through_case, "jump-through-case");
    push(f.return_in_loop_in_func, "return-in-loop-in-function");
    push(f.return_outside_func, "return-outside-function");
    push(f.exit_in_subshell, "exit-in-subshell");
    push(f.case_fallthrough, "case-fallthrough");
    push(f.not_on_compound, "not-on-compound");
    push(f.call_in_andor_or_cond, "call-in-andor-or-condition");
    push(f.for_empty_list, "for-empty-list");
    for k in &f.kinds {
        l.push(format!("kind:{k}"));
    }
    l.push(format!("depth:{}", f.max_depth.min(6)));
    let nontrivial = f.max_depth >= 2 && (f.jumps > 0 || f.case_fallthrough || f.call_in_andor_or_cond);
    (l, nontrivial)
}

pub fn classes(p: &Prog) -> Vec<String> {
    let f = p.facts();
    let mut c = vec![];
    if f.jump_beyond_depth || f.jump_outside_loop {
        c.push("jump_beyond_lexical_loop_depth".to_string());
    }
    if f.jump_nonpositive {
        c.push("jump_count_nonpositive".to_string());
    }
    if f.nested_subshell_start {
        c.push("subshell_starting_with_subshell".to_string());
    }
    if f.sole_bang_return_in_subshell {
        c.push("sole_bang_return_in_subshell".to_string());
    }
    if f.return_outside_func {
        c.push("return_outside_function".to_string());
    }
    c
}

pub fn spec_for(p: &Prog) -> CaseSpec {
    CaseSpec { script: p.render(), args: vec!["A1".into(), "A2".into()], timeout_ms: 10_000, ..Default::default() }
}

impl Layer for Diff {
    type Case = Prog;
    fn name(&self) -> String {
        "diff".into()
    }
    fn classes(&self, case: &Prog) -> Vec<String> {
        classes(case)
    }
    fn render(&self, case: &Prog) -> String {
        case.render_body()
    }
    fn shrink_candidates(&self, case: &Prog) -> Vec<Prog> {
        case.shrink_candidates()
    }
    fn eval(&self, case: &Prog) -> Verdict {
        let spec = spec_for(case);
        let (outcome, pair) = judge(&spec, &DiffCfg::default());
        let (labels, nontrivial) = labels(case);
        Verdict { outcome, labels, nontrivial, sample: Some(pair_sample(&pair.bash, &pair.brush)), weight: 1 }
    }
}

pub fn gen_cfg(ctx: &Ctx) -> GenCfg {
    GenCfg { depth: ctx.tier.pick(3, 4), max_list: 3, nfuncs: 2, ..Default::default() }
}

pub fn run(run: &mut PropRun, ctx: &Ctx) {
    run.rule = "programs from the typed control-flow grammar (leaves `t K S`, bounded loops, functions, case with ;; ;& ;;&, \
                break/continue/return/exit with level counts, $? probes); differential vs bash 5.2.15 on stdout trace and exit status; \
                non-trivial = nesting depth >= 2 and (a jump, a case fall-through, or a function call inside an and-or list/condition); \
                distinct by rendered program text"
        .into();
    run.assumptions.push("bash 5.2.15 is the reference for 'bash'".into());
    let n = ctx.tier.pick(4000, 80_000);
    let rep = explore(&Diff, prog_strategy(&gen_cfg(ctx)), n, ctx);
    let floors: Vec<(&str, u64)> = vec![
        ("jump-n>=2", n as u64 / 100),
        ("jump-in-condition", n as u64 / 200),
        ("jump-through-case", n as u64 / 400),
        ("return-in-loop-in-function", n as u64 / 400),
        ("exit-in-subshell", n as u64 / 400),
        ("case-fallthrough", n as u64 / 50),
        ("not-on-compound", n as u64 / 100),
    ];
    if rep.failures.is_empty() {
        if let Some(m) = check_floors(&rep, &floors) {
            run.fatal = Some(format!("generator degenerate: {m}"));
        }
    }
    run.add(rep);
}

pub fn replay(layer: &str, case: &serde_json::Value) -> Result<(String, Verdict), String> {
    match layer {
        "diff" => replay_case(&Diff, case),
        _ => Err(format!("C02: unknown layer {layer}")),
    }
}

#[allow(dead_code)]
fn _unused(_: Outcome) {}

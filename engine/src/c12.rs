//! C12 — subshell isolation: nothing done in a subshell changes the parent shell.
//! Metamorphic, brush against itself: a full textual dump of the parent's state is taken before and
//! after a generated sequence of state mutators runs inside one of the subshell contexts; the two
//! dumps must be equal (volatile names filtered).  The same script must hold for bash, else skip.

use bvcommon::exec::{run_case, CaseSpec, Obs, ShellKind, Status};
use bvcommon::report::PropRun;
use bvcommon::runner::{check_floors, explore, replay_case, Ctx, Layer, Outcome, Verdict};
use proptest::prelude::*;
use serde::{Deserialize, Serialize};
use serde_json::json;

/// (category, command)
pub const MUTATORS: &[(&str, &str)] = &[
    ("var", "v1=changed"),
    ("var", "unset v2"),
    ("var", "export v3=new"),
    ("var", "export v1"),
    ("var", "readonly v4=ro"),
    ("var", "declare -i v5=7+1"),
    ("var", "a1[2]=x"),
    ("var", "a1+=(q)"),
    ("var", "unset a1"),
    ("var", "m1[k2]=v2"),
    ("var", "unset 'm1[k]'"),
    ("var", "newvar=created"),
    ("var", "declare -g gv=global"),
    ("var", "read -r v1 <<< fromread"),
    ("var", "printf -v v2 %s fromprintf"),
    ("var", "(( v5 += 3 ))"),
    ("var", ": ${v9:=assigned}"),
    ("var", "mapfile -t a1 <<< mapped"),
    ("var", "IFS=:"),
    ("var", "PATH=/nonexistent-path"),
    ("var", "OPTIND=5"),
    ("var", "eval 'v1=evald'"),
    ("var", ". ./mut.sh"),
    ("var", "getopts ab opt -a"),
    ("var", "for v1 in l1 l2; do :; done"),
    ("var", "/bin/echo ${v9:=expanded-for-an-external}"),
    ("var", "/bin/true $((v5++)) ${nv:=x}"),
    ("var", "echo $((v5 += 2)) ${v9:=z}"),
    ("func", "f1() { echo redefined; }"),
    ("func", "unset -f f2"),
    ("func", "newf() { :; }"),
    ("opt", "set -u"),
    ("opt", "set -f"),
    ("opt", "set -e"),
    ("opt", "set -o pipefail"),
    ("opt", "set -o noclobber"),
    ("opt", "set +B"),
    ("opt", "shopt -s nullglob"),
    ("opt", "shopt -s dotglob"),
    ("opt", "shopt -u extglob"),
    ("opt", "shopt -s nocasematch"),
    ("alias", "alias ll='echo changed'"),
    ("alias", "unalias la"),
    ("alias", "alias nn=new"),
    ("trap", "trap 'echo changed' USR1"),
    ("trap", "trap - USR2"),
    ("trap", "trap 'echo t' TERM"),
    ("trap", "trap '' INT"),
    ("dir", "cd /"),
    ("dir", "cd sub"),
    ("dir", "pushd sub >/dev/null"),
    ("dir", "cd .."),
    ("args", "set -- x y z"),
    ("args", "shift"),
    ("args", "set --"),
    ("fd", "exec 3>/dev/null"),
    ("fd", "exec 4<&0"),
    ("fd", "exec 5<&-"),
    ("fd", "exec 6<>sub/f6"),
    ("fd", "exec >/dev/null"),
    ("fd", "exec 0</dev/null"),
    ("exit", "exit 3"),
    ("exit", "false"),
    ("exit", "return 2>/dev/null"),
    ("jump", "continue"),
    ("jump", "break"),
    ("jump", "continue 2"),
    ("jump", "break 2"),
    ("jump", "return 3"),
    ("complete", "complete -W 'a b' newcmd"),
    ("complete", "complete -r oldcmd"),
];

/// process-wide state (known finding: not part of the cloned shell)
pub const PROCESS_WIDE: &[(&str, &str)] = &[("umask", "umask 077"), ("umask", "umask 027"), ("ulimit", "ulimit -n 100"), ("ulimit", "ulimit -c 0"), ("ulimit", "ulimit -f 1000")];

pub const CONTEXTS: &[&str] = &["paren", "cmdsubst", "backquote", "pipe-first", "pipe-middle", "background", "procsub-in", "procsub-out", "coproc", "func-in-paren", "nested", "loop-paren", "loop-cmdsubst", "loop-pipe", "loop-background", "nested-loops-paren", "pipe-stages", "background-each"];

#[derive(Clone, Debug, Serialize, Deserialize)]
pub struct Case {
    pub muts: Vec<String>,
    pub context: String,
    /// parent does (state-neutral) work while a background/coproc body runs
    pub parent_busy: bool,
    /// replay files of other coproc findings: do not judge the coprocess's own pipe descriptors
    #[serde(default)]
    pub ignore_coproc_pipes: bool,
}

const SETUP: &str = r#"v1=one; v2=two; export v3=three; v4=four; declare -i v5=5; a1=(x y z); declare -A m1=([k]=v)
f1() { echo f1; }
f2() { echo f2; }
alias ll='echo ll'; alias la='echo la'
trap 'echo usr1' USR1; trap 'echo usr2' USR2
complete -W 'x y' oldcmd
mkdir -p sub; : > sub/f6; echo 'v1=sourced; srcvar=1' > mut.sh
exec 5</dev/null
dump() {
  echo "== vars"; declare -p
  echo "== funcs"; declare -f
  echo "== opts"; echo "$-"; set -o; shopt
  echo "== alias"; alias
  echo "== traps"; trap -p
  echo "== dirs"; pwd; dirs
  echo "== umask"; umask
  echo "== ulimit"; ulimit -a
  echo "== args"; echo "$#:$*"
  echo "== complete"; complete -p
  echo "== child"; fdlist; childenv v1 v3 PATH newvar
}
busy() { local i; for i in 1 2 3; do : "$(echo $i)"; true | true; cd . ; done; tmpv=1; unset tmpv; }
cd .; busy; dump > /dev/null 2>&1
q=2; p=2
"#;

impl Case {
    pub fn body(&self) -> String {
        self.muts.join("; ")
    }
    pub fn script(&self) -> String {
        let m = self.body();
        let busy = if self.parent_busy { "busy; " } else { "" };
        let ctx = match self.context.as_str() {
            "paren" => format!("( {m} ) >/dev/null 2>&1"),
            "cmdsubst" => format!(": \"$( {m} )\" 2>/dev/null"),
            "backquote" => format!(": `{m}` 2>/dev/null"),
            "pipe-first" => format!("{{ {m}; }} 2>/dev/null | cat >/dev/null"),
            "pipe-middle" => format!("echo in | {{ {m}; }} 2>/dev/null | cat >/dev/null"),
            "background" => format!("{{ {m}; }} >/dev/null 2>&1 & {busy}wait"),
            "procsub-in" => format!("cat <( {m} ) >/dev/null 2>&1"),
            "procsub-out" => format!("echo out > >( {m}; cat >/dev/null ) 2>/dev/null; sleep 0.05"),
            "coproc" => format!("coproc {{ {m}; }} >/dev/null 2>&1; {busy}wait"),
            "func-in-paren" => format!("sf() {{ {m}; }}; ( sf ) >/dev/null 2>&1; unset -f sf"),
            // every mutator is a pipeline stage (or a background command) of its own, not wrapped in a group
            "pipe-stages" => format!("{} 2>/dev/null | cat >/dev/null", self.muts.iter().map(|m| if m.contains(';') { format!("{{ {m}; }}") } else { m.clone() }).collect::<Vec<_>>().join(" 2>/dev/null | ")),
            "background-each" => format!("{} wait", self.muts.iter().map(|m| if m.contains(';') { format!("{{ {m}; }} >/dev/null 2>&1 &") } else { format!("{m} >/dev/null 2>&1 &") }).collect::<Vec<_>>().join(" ")),
            "loop-paren" => format!("for q in 1 2; do ( {m} ) >/dev/null 2>&1; echo \"after:$q\"; done"),
            "loop-cmdsubst" => format!("for q in 1 2; do : \"$( {m} )\" 2>/dev/null; echo \"after:$q\"; done"),
            "loop-pipe" => format!("q=0; while (( q < 2 )); do q=$((q+1)); {{ {m}; }} 2>/dev/null | cat >/dev/null; echo \"after:$q\"; done"),
            "loop-background" => format!("for q in 1 2; do {{ {m}; }} >/dev/null 2>&1 & wait; echo \"after:$q\"; done"),
            "nested-loops-paren" => format!("for p in 2; do for q in 1 2; do ( {m} ) >/dev/null 2>&1; echo \"after:$q\"; done; echo \"outer:$p\"; done"),
            _ => format!("( : \"$( {m} )\"; ( {m} ) ) >/dev/null 2>&1"),
        };
        format!("{SETUP}dump > d1.txt 2>&1\n{ctx}\ndump > d2.txt 2>&1\necho \"@END\"\n")
    }
    pub fn render(&self) -> String {
        let s = self.script();
        s[SETUP.len()..].to_string()
    }
}

const VOLATILE: &[&str] = &[
    "_", "PIPESTATUS", "BASH_COMMAND", "LINENO", "RANDOM", "SRANDOM", "SECONDS", "EPOCHSECONDS", "EPOCHREALTIME", "BASH_LINENO", "FUNCNAME", "BASH_SOURCE", "BASH_ARGC", "BASH_ARGV", "BASHPID", "COPROC", "COPROC_PID", "BASH_SUBSHELL", "BASH_ARGV0", "BASH_CMDS",
];

fn filtered(dump: &[u8]) -> Vec<String> {
    String::from_utf8_lossy(dump)
        .lines()
        .filter(|l| {
            if let Some(rest) = l.strip_prefix("declare ") {
                // declare -x NAME=...
                let name = rest.split_whitespace().nth(1).unwrap_or("");
                let name = name.split('=').next().unwrap_or("");
                !VOLATILE.contains(&name)
            } else {
                true
            }
        })
        .map(|s| s.to_string())
        .collect()
}

fn dumps(o: &Obs) -> Option<(Vec<String>, Vec<String>)> {
    let a = o.files.get("d1.txt")?;
    let b = o.files.get("d2.txt")?;
    Some((filtered(a), filtered(b)))
}

fn diff_lines(a: &[String], b: &[String]) -> String {
    let mut out = vec![];
    let sa: std::collections::BTreeSet<&String> = a.iter().collect();
    let sb: std::collections::BTreeSet<&String> = b.iter().collect();
    for l in a {
        if !sb.contains(l) {
            out.push(format!("- {l}"));
        }
    }
    for l in b {
        if !sa.contains(l) {
            out.push(format!("+ {l}"));
        }
    }
    if out.is_empty() && a != b {
        out.push("(same lines in a different order)".into());
    }
    bvcommon::exec::trunc(&out.join("\n"), 1500)
}

pub struct Isolation {
    /// classes of listed findings that still reproduce
    pub known: std::collections::BTreeSet<String>,
}

fn category(m: &str) -> &'static str {
    MUTATORS.iter().chain(PROCESS_WIDE.iter()).find(|(_, c)| *c == m).map(|(k, _)| *k).unwrap_or("?")
}

impl Layer for Isolation {
    type Case = Case;
    fn name(&self) -> String {
        "isolation".into()
    }
    fn classes(&self, c: &Case) -> Vec<String> {
        let mut v = vec![];
        if c.muts.iter().any(|m| m.starts_with("umask") || m.starts_with("ulimit")) {
            v.push("process_wide_state_in_subshell".to_string());
        }
        // `( (( expr )) )`: known finding C02-nested-subshell-as-arithmetic (the whole thing is taken for an
        // arithmetic command, which then runs in the parent)
        if matches!(c.context.as_str(), "paren" | "loop-paren" | "nested-loops-paren") && c.muts.first().map(|m| m.starts_with("((")).unwrap_or(false) {
            v.push("subshell_starting_with_subshell".to_string());
        }
        v
    }
    fn render(&self, c: &Case) -> String {
        c.render()
    }
    fn shrink_candidates(&self, c: &Case) -> Vec<Case> {
        let mut out = vec![];
        for i in 0..c.muts.len() {
            if c.muts.len() > 1 {
                let mut m = c.muts.clone();
                m.remove(i);
                out.push(Case { muts: m, ..c.clone() });
            }
        }
        if c.parent_busy {
            out.push(Case { parent_busy: false, ..c.clone() });
        }
        if c.context != "paren" {
            out.push(Case { context: "paren".into(), ..c.clone() });
        }
        out
    }
    fn eval(&self, c: &Case) -> Verdict {
        let spec = CaseSpec { script: c.script(), args: vec!["A1".into(), "A2".into()], collect_files: true, timeout_ms: 10_000, ..Default::default() };
        let o = run_case(ShellKind::Brush, &spec);
        let mut labels = vec![format!("context:{}", c.context)];
        let mut cats: Vec<&str> = c.muts.iter().map(|m| category(m)).collect();
        cats.sort();
        cats.dedup();
        for k in &cats {
            labels.push(format!("mutates:{k}"));
        }
        if c.parent_busy {
            labels.push("parent-busy".into());
        }
        let nontrivial = c.muts.len() >= 2 && cats.len() >= 2;
        if o.panicked() {
            return Verdict { outcome: Outcome::Fail(format!("brush crashed: {}", o.summary())), labels, nontrivial, sample: None, weight: 1 };
        }
        if o.status == Status::Timeout {
            let again = run_case(ShellKind::Brush, &spec);
            let b = run_case(ShellKind::Bash, &spec);
            let outcome = if again.status == Status::Timeout && b.status != Status::Timeout && b.wall_ms < 1000 { Outcome::Fail(format!("brush hangs (bash finished in {} ms)", b.wall_ms)) } else { Outcome::Inconclusive("timeout".into()) };
            return Verdict { outcome, labels, nontrivial, sample: None, weight: 1 };
        }
        // known finding C12-coproc-descriptors-stay-open: in the coproc context the pipe descriptors the
        // shell itself created for the coprocess are not compared (every other line still is)
        let drop_coproc_pipes = c.context == "coproc" && (c.ignore_coproc_pipes || self.known.contains("coproc_descriptors_outlive_coprocess"));
        let strip = |v: Vec<String>| -> Vec<String> {
            if drop_coproc_pipes {
                v.into_iter().filter(|l| !(l.starts_with("fd ") && l.ends_with("-> pipe"))).collect()
            } else {
                v
            }
        };
        if drop_coproc_pipes {
            labels.push("excluded-lines:coproc-pipes".into());
        }
        let outcome = match dumps(&o).map(|(a, b)| (strip(a), strip(b))) {
            None => {
                // the parent never reached the second dump
                let b = run_case(ShellKind::Bash, &spec);
                if dumps(&b).is_some() && b.out_lossy().contains("@END") {
                    Outcome::Fail(format!("the parent shell did not survive the subshell: status {:?}, stderr {}", o.status, bvcommon::exec::trunc(&o.err_lossy(), 400)))
                } else {
                    Outcome::Skip("bash does not finish this script either".into())
                }
            }
            Some((a, b)) => {
                let expected_out = match c.context.as_str() {
                    "nested-loops-paren" => "after:1\nafter:2\nouter:2\n@END\n",
                    x if x.starts_with("loop-") => "after:1\nafter:2\n@END\n",
                    _ => "@END\n",
                };
                if a == b && o.out_lossy() == expected_out {
                    Outcome::Pass
                } else {
                    let reason = if a != b { format!("parent state changed:\n{}", diff_lines(&a, &b)) } else { format!("the parent's own commands after the subshell did not all run: stdout {:?}, expected {:?} (status {:?})", o.out_lossy(), expected_out, o.status) };
                    // guard: bash must keep its own dumps equal on this script
                    let bo = run_case(ShellKind::Bash, &spec);
                    match dumps(&bo) {
                        Some((x, y)) if x == y && bo.out_lossy() == expected_out => Outcome::Fail(reason),
                        Some((x, y)) => Outcome::Skip(format!("bash's parent state changes too: {}", bvcommon::exec::trunc(&diff_lines(&x, &y), 200))),
                        None => Outcome::Skip("bash does not finish this script".into()),
                    }
                }
            }
        };
        let sample = json!({"context_line": c.render().lines().nth(1).unwrap_or(""), "dump_lines": dumps(&o).map(|(a, _)| a.len()).unwrap_or(0)});
        Verdict { outcome, labels, nontrivial, sample: Some(sample), weight: 1 }
    }
}

pub fn strategy(_ctx: &Ctx) -> BoxedStrategy<Case> {
    let muts: Vec<String> = MUTATORS.iter().map(|(_, c)| c.to_string()).collect();
    let pw: Vec<String> = PROCESS_WIDE.iter().map(|(_, c)| c.to_string()).collect();
    let one = prop_oneof![100 => proptest::sample::select(muts), 1 => proptest::sample::select(pw)];
    (proptest::collection::vec(one, 1..=6), proptest::sample::select(CONTEXTS.to_vec()), proptest::bool::weighted(0.5))
        .prop_map(|(muts, context, parent_busy)| {
            let busy = parent_busy && (context == "background" || context == "coproc");
            Case { muts, context: context.to_string(), parent_busy: busy, ignore_coproc_pipes: false }
        })
        .boxed()
}

pub fn run(run: &mut PropRun, ctx: &Ctx) {
    run.rule = "sequences of 1-6 state mutators (assignments of every kind incl. read/printf -v/(( ))/${:=}/mapfile/getopts/eval/source/for, unset, export, readonly, integer and array and associative \
                elements, function definition and removal, set/shopt options, aliases, traps, cd/pushd, positional parameters, exec redirections incl. of stdin/stdout, exit/return, completion specs; \
                rarely umask/ulimit) run inside one of 11 subshell contexts (( ), $( ), backquotes, first and middle pipeline stage, background job, <( ), >( ), coproc, function called in ( ), nested), \
                also inside parent loops with break/continue/return among the mutators, optionally with the parent doing state-neutral work meanwhile; oracle: the parent's full dump (declare -p, declare -f, $-, set -o, shopt, alias, trap -p, pwd, dirs, umask, ulimit -a, \
                $@, complete -p, and an external child's view of descriptors 0-19, umask, rlimits, cwd and environment) is the same before and after, and the parent's own marker commands after the subshell all run, volatile names (RANDOM, _, PIPESTATUS ...) \
                filtered; reported only if bash keeps its own dumps equal on the same script; non-trivial = at least 2 mutators of at least 2 categories"
        .into();
    run.assumptions.push("bash 5.2.15 used as a guard only (its dumps are not compared with brush's)".into());
    let n = ctx.tier.pick(5000, 80_000);
    let rep = explore(&Isolation { known: ctx.active_classes.clone() }, strategy(ctx), n, ctx);
    let n64 = n as u64;
    let mut floors: Vec<(String, u64)> = CONTEXTS.iter().map(|c| (format!("context:{c}"), n64 / 25)).collect();
    for k in ["var", "func", "opt", "alias", "trap", "dir", "args", "fd", "exit", "jump"] {
        floors.push((format!("mutates:{k}"), n64 / 12));
    }
    let fl: Vec<(&str, u64)> = floors.iter().map(|(a, b)| (a.as_str(), *b)).collect();
    if rep.failures.is_empty() {
        if let Some(m) = check_floors(&rep, &fl) {
            run.fatal = Some(format!("generator degenerate: {m}"));
        }
    }
    run.add(rep);
}

pub fn replay(layer: &str, case: &serde_json::Value) -> Result<(String, Verdict), String> {
    match layer {
        "isolation" => replay_case(&Isolation { known: Default::default() }, case),
        _ => Err(format!("C12: unknown layer {layer}")),
    }
}

//! C06 — parameter-expansion operators (differential vs bash; prefix/suffix removal also against
//! the harness's own matcher).

use crate::util::pair_sample;
use bvcommon::diff::{judge, DiffCfg};
use bvcommon::exec::CaseSpec;
use bvcommon::globmodel::{self, Opts};
use bvcommon::report::PropRun;
use bvcommon::runner::{check_floors, explore, replay_case, Ctx, Layer, Outcome, Verdict};
use proptest::prelude::*;
use serde::{Deserialize, Serialize};

#[derive(Clone, Debug, Serialize, Deserialize)]
pub struct Case {
    /// value of the scalar `v` (enters through the environment)
    pub v: String,
    /// expressions, each the inside of `${…}`
    pub exprs: Vec<String>,
    pub nounset: bool,
}

pub const VALUES: &[&str] = &["abcabc", " a b ", "a*b", "héllo", "x\ny", "", "A/b/c.txt", "aaa", "aXbXc", "[x]y", "a b  c", "€uro", "-n", "path/to/file.tar.gz", "MiXeD cAsE", "ab\n", "\\a\\b"];
const PARAMS: &[&str] = &["v", "v", "v", "1", "2", "@", "*", "a[@]", "a[*]", "a[0]", "a[2]", "a[1]", "m[k]", "m[@]", "u", "e", "d", "sa[@]", "sa[4]", "a[-1]"];
const PATS: &[&str] = &["a", "b", "*", "?", "a*", "*a", "*b*", "[ab]", "[!a]", "??", "*/", "/*", ".*", "*.*", "X", "a*c", "\\*", "é", "[[:upper:]]", "[[:space:]]", " ", "@(a|b)", "+(a)", "*(ab|c)", "?(x)", "''", "\"a*\"", "$pat", "\"$pat\"",
    // alternatives where one is a proper prefix / suffix of another: longest and shortest match differ from first-alternative match
    "@(a|ab)", "+(a|ab|c)", "*(a|aa)", "@(c|bc|abc)", "+(c|Xc|b)", "?(a|aX)b*",
];
const WORDS: &[&str] = &["w", "", "w x", "\"w  x\"", "'q'", "$v", "\"$v\"", "${e:-n}", "*", "~", "$(printf s)", "a{b,c}"];
const OFFS: &[&str] = &["0", "1", "2", "-1", " -1", "(-2)", "3", "5", "6", "7", "100", " -100", "1+1", "i", "i-1", "${#v}", "${#v}-1", "0x2", "1<<1"];
const LENS: &[&str] = &["0", "1", "2", "3", "100", "-1", "-2", " -1", "i", "1+1"];
const REPL: &[&str] = &["", "R", "r s", "\"r  s\"", "$v", "\\/", "*", "'q'", "'$0'", "$dollar"];

fn sel(v: &'static [&'static str]) -> BoxedStrategy<String> {
    proptest::sample::select(v.to_vec()).prop_map(String::from).boxed()
}

fn expr() -> BoxedStrategy<String> {
    let p = sel(PARAMS);
    prop_oneof![
        2 => p.clone().prop_map(|p| format!("#{p}")),
        4 => (p.clone(), sel(OFFS)).prop_map(|(p, o)| format!("{}:{o}", if p == "m[@]" { "a[@]".to_string() } else { p })),
        5 => (p.clone(), sel(OFFS), sel(LENS)).prop_map(|(p, o, l)| {
            let p = if p == "m[@]" { "a[@]".to_string() } else { p };
            // negative lengths only on scalars: for arrays and positional parameters bash itself is
            // irregular (error or empty result depending on the offset)
            let l = if l.trim_start().starts_with('-') && (p.contains("[@]") || p.contains("[*]") || p == "@" || p == "*") { "1".to_string() } else { l };
            format!("{p}:{o}:{l}")
        }),
        5 => (p.clone(), sel(&["-", ":-", "+", ":+", "=", ":=", "?", ":?"]), sel(WORDS)).prop_map(|(p, op, w)| format!("{p}{op}{w}")),
        8 => (p.clone(), sel(&["#", "##", "%", "%%"]), sel(PATS)).prop_map(|(p, op, pat)| format!("{p}{op}{pat}")),
        // patterns that can match the empty string are kept out of ${p/pat/rep}: bash's own behaviour
        // for empty matches is irregular (it depends on anchoring, on the value being empty, …)
        6 => (p.clone(), sel(&["/", "//", "/#", "/%"]), sel(PATS).prop_map(|p| if ["''", "?(x)", "*(ab|c)", "*", "*(a|aa)", "@(a|ab)", "+(a|ab|c)", "@(c|bc|abc)", "+(c|Xc|b)", "?(a|aX)b*"].contains(&p.as_str()) { "a".to_string() } else { p.replace('/', "\\/") }), proptest::option::of(sel(REPL))).prop_map(|(p, op, pat, r)| match r {
            Some(r) => format!("{p}{op}{pat}/{r}"),
            None => format!("{p}{op}{pat}"),
        }),
        4 => (p.clone(), sel(&["^", "^^", ",", ",,"]), proptest::option::of(sel(&["a", "[ab]", "?", "[a-z]", "*"]))).prop_map(|(p, op, pat)| format!("{p}{op}{}", pat.unwrap_or_default())),
        3 => (p.clone(), sel(&["Q", "U", "L", "u", "E", "A", "a"])).prop_map(|(p, t)| {
            // ${@@A} / ${*@a} (assignment form / attributes of the positional list) are kept out: obscure
            let p = if (t == "A" || t == "a") && (p == "@" || p == "*" || p == "1" || p == "2" || p.contains("[@]") || p.contains("[*]") || p == "d") { "v".to_string() } else { p };
            format!("{p}@{t}")
        }),
        2 => sel(&["!r", "!r2", "!a[@]", "!a[*]", "!m[@]", "!nope", "!r:1", "!r#a", "!pre*", "!pre@", "!ra"]),
    ]
    .boxed()
}

pub fn cases() -> BoxedStrategy<Case> {
    (sel(VALUES), proptest::collection::vec(expr(), 8..=14), proptest::bool::weighted(0.2)).prop_map(|(v, exprs, nounset)| Case { v, exprs, nounset }).boxed()
}

const SETUP: &str = "v=$V; set -- p1 'b c' '' 'a*b'; a=(x 'y z' '' abcabc 'q'); sa=([1]=s1 [4]='s 4' [9]=s9); declare -A m=([k]=kv); unset u; e=; declare d; i=2; pat='a*'; dollar='$1x'; r=v; r2=nope; ra='a[2]'; pre1=1; pre2=2\n";

fn script(c: &Case) -> String {
    let mut s = String::from("shopt -s extglob\ndump() { printf 'argc=%s\\n' \"$#\"; for _x; do printf '%s:%s\\n' \"${#_x}\" \"$_x\"; done; }\n");
    s.push_str(SETUP);
    if c.nounset {
        s.push_str("set -u\n");
    }
    for (k, e) in c.exprs.iter().enumerate() {
        s.push_str(&format!("echo \"#{k}\"\n"));
        s.push_str(&format!("( dump \"${{{e}}}\"; echo \"st:$?\" ) 2>err.q{k}; echo \"rc:$? err:$([ -s err.q{k} ] && echo y || echo n)\"\n"));
        s.push_str(&format!("( dump ${{{e}}}; echo \"st:$?\" ) 2>err.u{k}; echo \"rc:$? err:$([ -s err.u{k} ] && echo y || echo n)\"\n"));
        if e.contains('=') && (e.starts_with("u") || e.starts_with("e") || e.starts_with("d") || e.starts_with("v")) {
            let name = &e[..1];
            s.push_str(&format!("( : \"${{{e}}}\"; dump \"${name}\" ) 2>/dev/null\n"));
        }
    }
    s.push_str("echo @END\n");
    s
}

pub struct Diff;

pub fn classes_of(c: &Case) -> Vec<String> {
    let mut v = vec![];
    for e in &c.exprs {
        if e.contains("!(") {
            v.push("extglob_negation".to_string());
        }
        // ${p/pat/rep} with an extglob group whose alternative is a proper prefix/suffix of another one
        if e.contains('/') && ["@(a|ab)", "+(a|ab|c)", "@(c|bc|abc)", "+(c|Xc|b)", "?(a|aX)b*"].iter().any(|g| e.contains(&format!("/{g}")) || e.contains(&format!("/#{g}")) || e.contains(&format!("/%{g}")) || e.contains(&format!("//{g}"))) {
            v.push("replace_extglob_first_alternative".to_string());
        }
        if e.contains("<<") {
            v.push("shift_in_parameter_expansion".to_string());
        }
        if c.nounset && (e.starts_with("u@") || e.starts_with("d@")) {
            v.push("nounset_transform_of_unset".to_string());
        }
        if e.starts_with("sa[@]:") || e.starts_with("sa[*]:") {
            v.push("sparse_array_slice".to_string());
        }
        if e.ends_with("@u") && !e.starts_with('v') || e == "v@u" {
            v.push("transform_u_every_word".to_string());
        }
    }
    v.sort();
    v.dedup();
    v
}

/// operator class of an expression, for labels
fn op_class(e: &str) -> &'static str {
    if e.starts_with('#') {
        "length"
    } else if e.starts_with('!') {
        "indirect"
    } else if e.contains("@Q") || e.contains("@U") || e.contains("@L") || e.contains("@u") || e.contains("@E") || e.contains("@A") || e.contains("@a") {
        "transform"
    } else if e.contains("//") || e.contains("/#") || e.contains("/%") || e.contains('/') && !e.contains(":-") {
        "replace"
    } else if e.contains("%%") || e.contains('%') {
        "suffix-removal"
    } else if e.contains("##") || e.contains('#') {
        "prefix-removal"
    } else if e.contains("^") || e.contains(",") {
        "case-modification"
    } else if e.contains(":-") || e.contains(":=") || e.contains(":+") || e.contains(":?") || e.contains('-') && !e.contains(':') || e.contains('+') || e.contains('=') || e.contains('?') {
        "default/assign/alt/error"
    } else {
        "substring"
    }
}

impl Layer for Diff {
    type Case = Case;
    fn name(&self) -> String {
        "diff".into()
    }
    fn render(&self, c: &Case) -> String {
        format!("v={:?} nounset={} exprs: {}", c.v, c.nounset, c.exprs.iter().map(|e| format!("${{{e}}}")).collect::<Vec<_>>().join("  "))
    }
    fn classes(&self, c: &Case) -> Vec<String> {
        classes_of(c)
    }
    fn shrink_candidates(&self, c: &Case) -> Vec<Case> {
        let mut out = vec![];
        if c.exprs.len() > 1 {
            for e in &c.exprs {
                out.push(Case { exprs: vec![e.clone()], ..c.clone() });
            }
        }
        if c.nounset {
            out.push(Case { nounset: false, ..c.clone() });
        }
        for v in ["abcabc", "a", ""] {
            if c.v != v {
                out.push(Case { v: v.to_string(), ..c.clone() });
            }
        }
        out
    }
    fn eval(&self, c: &Case) -> Verdict {
        let spec = CaseSpec { script: script(c), env: vec![("V".into(), c.v.clone())], timeout_ms: 20_000, ..Default::default() };
        let (mut outcome, pair) = judge(&spec, &DiffCfg::default());
        let mut labels: Vec<String> = vec![];
        let mut nontrivial = false;
        // independent check of # ## % %% on the scalar v: bash must agree with the definition in the property
        let bash_out = pair.bash.out_lossy();
        let blocks: Vec<&str> = bash_out.split("\n#").collect();
        for (k, e) in c.exprs.iter().enumerate() {
            labels.push(format!("op:{}", op_class(e)));
            let pcls = if e.starts_with("v") || e.starts_with("#v") { "scalar" } else if e.contains("a[") { "indexed" } else if e.contains("m[") { "assoc" } else if e.starts_with('@') || e.starts_with('*') || e.starts_with('1') || e.starts_with('2') { "positional" } else { "other" };
            labels.push(format!("param:{pcls}"));
            for (op, suffix, longest) in [("v##", false, true), ("v#", false, false), ("v%%", true, true), ("v%", true, false)] {
                if let Some(pat) = e.strip_prefix(op) {
                    if pat.starts_with('#') || pat.starts_with('%') {
                        continue;
                    }
                    // only literal patterns of the model's language (no quoting / expansions)
                    if pat.contains('$') || pat.contains('"') || pat.contains('\'') || c.nounset {
                        break;
                    }
                    nontrivial = true;
                    if let Some(want) = globmodel::remove(pat, &c.v, Opts { extglob: true, nocase: false }, suffix, longest) {
                        let expected = format!("argc=1\n{}:{}\n", want.chars().count(), want);
                        let block = blocks.iter().find(|b| b.starts_with(&format!("{k}\n")) || (k == 0 && b.starts_with(&format!("#{k}\n"))));
                        if let Some(b) = block {
                            if !b.contains(&expected) {
                                if matches!(outcome, Outcome::Pass | Outcome::Fail(_)) {
                                    outcome = Outcome::Skip(format!("oracle disagreement: by the property's definition ${{{e}}} of {:?} is {:?}, bash prints something else", c.v, want));
                                }
                            }
                            labels.push("removal-checked-against-definition".to_string());
                        }
                    }
                    break;
                }
            }
            if e.contains(":") && (e.contains("-1") || e.contains("100") || e.contains("-2")) || c.v.contains('\n') || !c.v.is_ascii() {
                nontrivial = true;
            }
        }
        if !c.exprs.is_empty() {
            nontrivial = true;
        }
        labels.sort();
        labels.dedup();
        if c.nounset {
            labels.push("nounset".into());
        }
        Verdict { outcome, labels, nontrivial, sample: Some(pair_sample(&pair.bash, &pair.brush)), weight: (c.exprs.len() * 2) as u64 }
    }
}

pub fn run(run: &mut PropRun, ctx: &Ctx) {
    run.rule = "(value, operator, operand) triples: parameters v (18 values incl. blanks, newline, glob characters, multi-byte), $1 $2 $@ $*, sparse indexed array (a[@] a[*] a[i]), \
                associative array, unset / null / declared-unset variables; operators ${#p} ${p:o} ${p:o:l} (offsets and lengths negative, zero, in range, out of range, arithmetic \
                expressions) ${p-w} ${p:-w} ${p=w} ${p:=w} ${p+w} ${p:+w} ${p?w} ${p:?w} ${p#pat} ${p##pat} ${p%pat} ${p%%pat} ${p/pat/r} ${p//pat/r} ${p/#pat/r} ${p/%pat/r} case modification, \
                ${!r} ${!a[@]} ${!pre*} and @Q @U @L @u @E @A @a; with and without nounset, quoted and unquoted; differential vs bash 5.2.15 on the argdump output, exit status and stderr \
                emptiness, and the variable's value after := ; additionally ${v#p} ${v##p} ${v%p} ${v%%p} with literal patterns are checked against the property's own definition \
                (shortest/longest matching prefix/suffix, the empty one included) computed by the harness's matcher; evaluations counts (expression, quoting) pairs"
        .into();
    run.assumptions.push("bash 5.2.15 reference under LC_ALL=C.utf8; `&` in replacements, @K/@k/@P and namerefs are outside the generated domain".into());
    let n = ctx.tier.pick(4000, 60_000);
    let rep = explore(&Diff, cases(), n, ctx);
    let floors: Vec<(&str, u64)> = vec![
        ("op:substring", n as u64 / 2),
        ("op:prefix-removal", n as u64 / 4),
        ("op:suffix-removal", n as u64 / 4),
        ("op:replace", n as u64 / 4),
        ("op:transform", n as u64 / 4),
        ("op:indirect", n as u64 / 8),
        ("op:default/assign/alt/error", n as u64 / 4),
        ("param:indexed", n as u64 / 2),
        ("param:assoc", n as u64 / 4),
        ("param:positional", n as u64 / 2),
        ("removal-checked-against-definition", n as u64 / 10),
    ];
    if rep.failures.is_empty() {
        if let Some(m) = check_floors(&rep, &floors) {
            run.fatal = Some(format!("generator degenerate: {m}"));
        }
    }
    run.add(rep);
}

pub fn replay(layer: &str, case: &serde_json::Value) -> Result<(String, Verdict), String> {
    match layer {
        "diff" => replay_case(&Diff, case),
        _ => Err(format!("C06: unknown layer {layer}")),
    }
}

//! C07 — arithmetic.  The bulk (parser + evaluator vs the reference evaluator) runs in process;
//! here the same expression trees go through the shell contexts, differential vs bash.

use crate::util::pair_sample;
use bvcommon::arith::{self, A};
use bvcommon::diff::{judge, DiffCfg};
use bvcommon::exec::CaseSpec;
use bvcommon::report::PropRun;
use bvcommon::runner::{explore, replay_case, Ctx, Layer, Verdict};
use proptest::prelude::*;
use serde::{Deserialize, Serialize};

#[derive(Clone, Debug, Serialize, Deserialize)]
pub struct Case {
    pub exprs: Vec<A>,
    /// use redundant parenthesisation
    pub full: bool,
    /// include the integer-attribute assignment context
    pub with_decl: bool,
}

pub struct Contexts;

const DUMP: &str = "x:$x y:$y z:$z e:$e i:$i u:${u-unset} a:${a[*]}";

fn script(c: &Case) -> String {
    let mut s = String::new();
    for (k, e) in c.exprs.iter().enumerate() {
        let t = if c.full { e.render_full() } else { e.render_min() };
        let env = arith::STD_ENV_SH.trim_end();
        s.push_str(&format!("( {env}; r=$(( {t} )); echo \"{k} exp:$r {DUMP}\" ) 2>/dev/null || echo \"{k} exp:ERR\"\n"));
        s.push_str(&format!("( {env}; (( {t} )); echo \"{k} cmd:$? {DUMP}\" ) 2>/dev/null || echo \"{k} cmd:ERR\"\n"));
        s.push_str(&format!("( {env}; let \" {t}\"; echo \"{k} let:$? {DUMP}\" ) 2>/dev/null || echo \"{k} let:ERR\"\n"));
        // `<<` inside `${…}` is mis-tokenised by brush as a here-document operator (known finding
        // C06-shift-in-substring-offset); that shape is exercised by C06, not here
        if !t.contains("<<") && arith::facts(e).side_effects == 0 {
            s.push_str(&format!("( {env}; s=abcdefghijklmnop; echo \"{k} sub:${{s:({t})&7:((({t})>>3)&3)+1}}\" ) 2>/dev/null || echo \"{k} sub:ERR\"\n"));
        }
        if !t.contains("<<") {
        s.push_str(&format!("( {env}; b=(p q r s t u v w); echo \"{k} idx:${{b[({t})&7]}} {DUMP}\" ) 2>/dev/null || echo \"{k} idx:ERR\"\n"));
        }
        // the loop condition is re-evaluated every iteration: only side-effect-free expressions
        if arith::facts(e).side_effects == 0 {
        s.push_str(&format!("( {env}; cnt=0; for (( j=0; j<(({t})&3); j++ )); do cnt=$((cnt+1)); done; echo \"{k} for:$cnt\" ) 2>/dev/null || echo \"{k} for:ERR\"\n"));
        }
        if c.with_decl {
            s.push_str(&format!("( {env}; declare -i d; d=\"{t}\"; echo \"{k} decl:$d {DUMP}\" ) 2>/dev/null || echo \"{k} decl:ERR\"\n"));
        }
    }
    s.push_str("echo @END\n");
    s
}

impl Layer for Contexts {
    type Case = Case;
    fn name(&self) -> String {
        "contexts".into()
    }
    fn render(&self, c: &Case) -> String {
        format!("full={} decl={} exprs: {}", c.full, c.with_decl, c.exprs.iter().map(|e| e.render_min()).collect::<Vec<_>>().join(" ;; "))
    }
    fn classes(&self, c: &Case) -> Vec<String> {
        let mut v = vec![];
        if c.exprs.iter().any(|e| arith::facts(e).assign_in_rhs_of_same) {
            v.push("arith_subscript_evaluated_twice".to_string());
        }
        if c.with_decl {
            v.push("integer_attribute_assignment".to_string());
        }
        // `(( … )) … << …`: after a `))` inside `(( ))`/`for ((;;))` the tokenizer believes the
        // arithmetic command has ended and reads a later `<<` as a here-document operator
        if c.exprs.iter().any(|e| {
            let t = if c.full { e.render_full() } else { e.render_min() };
            t.find("))").map(|i| t[i..].contains("<<")).unwrap_or(false)
        }) {
            v.push("shift_after_double_paren_in_arith_command".to_string());
        }
        if c.exprs.iter().any(|e| arith::Evaluator::new(arith::std_env()).eval(e).is_err()) {
            v.push("arith_error_in_arith_command".to_string());
        }
        v
    }
    fn shrink_candidates(&self, c: &Case) -> Vec<Case> {
        let mut out = vec![];
        if c.exprs.len() > 1 {
            for e in &c.exprs {
                out.push(Case { exprs: vec![e.clone()], ..c.clone() });
            }
        }
        if c.with_decl {
            out.push(Case { with_decl: false, ..c.clone() });
        }
        if c.full {
            out.push(Case { full: false, ..c.clone() });
        }
        if c.exprs.len() == 1 {
            for e in arith::shrink_candidates(&c.exprs[0]) {
                out.push(Case { exprs: vec![e], ..c.clone() });
            }
        }
        out
    }
    fn eval(&self, c: &Case) -> Verdict {
        let spec = CaseSpec { script: script(c), timeout_ms: 20_000, ..Default::default() };
        let (mut outcome, pair) = judge(&spec, &DiffCfg::default());
        // three-way rule: bash is only believed where the reference evaluator agrees with it
        let bash_out = pair.bash.out_lossy();
        for (k, e) in c.exprs.iter().enumerate() {
            let want = match arith::Evaluator::new(arith::std_env()).eval(e) {
                Ok(v) => format!("{k} exp:{v} "),
                Err(_) => format!("{k} exp:ERR"),
            };
            if !bash_out.lines().any(|l| l.starts_with(&want)) {
                outcome = bvcommon::runner::Outcome::Skip(format!("oracle disagreement: reference evaluator expects `{want}`"));
                break;
            }
        }
        let mut labels = vec![];
        let mut nontrivial = false;
        for e in &c.exprs {
            let f = arith::facts(e);
            if f.mixed_prec || f.boundary || f.side_effect_under_short_circuit {
                nontrivial = true;
            }
            if f.mixed_prec {
                labels.push("mixed-precedence".to_string());
            }
        }
        labels.sort();
        labels.dedup();
        if c.with_decl {
            labels.push("ctx:declare-i".into());
        }
        let per = if c.with_decl { 7 } else { 6 };
        Verdict { outcome, labels, nontrivial, sample: Some(pair_sample(&pair.bash, &pair.brush)), weight: (c.exprs.len() * per) as u64 }
    }
}

pub fn run(run: &mut PropRun, ctx: &Ctx) {
    run.rule = "expression trees (depth <= 4 quick / 6 thorough) over all 19 binary + comma, 4 unary, 4 increment and 11 assignment operators and ?:, operands from \
                boundary literals in decimal/octal/hex/base#digits and variables holding numbers, empty strings, names of other variables and expressions, \
                array elements; each tree rendered with minimal and with redundant parentheses. In process: brush's parser+evaluator vs the harness's wrapping-i64 \
                reference evaluator on value and the final values of all variables, every mismatch and a 1/61 sample arbitrated by bash (model-vs-bash \
                disagreement is skipped and counted). Process level: the same trees through $(( )), (( )) status, let, ${s:expr:expr}, ${b[expr]}, for((;;)) and \
                declare -i assignment, differential vs bash. non-trivial = mixes precedence levels without parentheses, or has a 2^31/2^63 boundary operand, \
                or a side effect under a short-circuit"
        .into();
    run.assumptions.push("bash 5.2.15 on x86-64 is the arbiter (shift counts outside 0..63 behave as on this machine)".into());
    crate::inproc::run_inproc("C07", ctx, run);
    let n = ctx.tier.pick(600, 15_000);
    let depth = ctx.tier.pick(3, 5);
    let strat = (proptest::collection::vec(arith::expr(depth), 4..=8), any::<bool>(), proptest::bool::weighted(0.2))
        .prop_map(|(exprs, full, with_decl)| Case { exprs, full, with_decl });
    run.add(explore(&Contexts, strat, n, ctx));
}

pub fn replay(layer: &str, case: &serde_json::Value) -> Result<(String, Verdict), String> {
    match layer {
        "contexts" => replay_case(&Contexts, case),
        _ => crate::inproc::replay_inproc("C07", layer, case),
    }
}

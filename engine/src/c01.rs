//! C01 — no input crashes the shell: parse, expand and run always end in a status.
//! Execution layers (out of process, unprivileged): boundary-value templates, deep nesting, and
//! mutants of the repository's own test scripts; the library entry points are driven in process
//! (inproc/src/c01.rs).  Oracle: no panic / abort / fatal signal, and no hang where bash finishes.

use bvcommon::exec::{run_case, CaseSpec, Obs, ShellKind, Status};
use bvcommon::mutate;
use bvcommon::report::PropRun;
use bvcommon::runner::{explore, replay_case, Ctx, Layer, Outcome, Verdict};
use proptest::prelude::*;
use serde::{Deserialize, Serialize};
use serde_json::json;
use std::sync::OnceLock;

#[derive(Clone, Debug, Serialize, Deserialize)]
pub struct Case {
    pub text: String,
}

pub struct Exec {
    pub name: &'static str,
}

fn spec(text: &str, ms: u64) -> CaseSpec {
    CaseSpec { script: text.to_string(), args: vec!["A1".into(), "A2".into()], timeout_ms: ms, unprivileged: true, files: vec![("f1".into(), "line1\nline2\n".into()), ("sub/".into(), String::new())], ..Default::default() }
}

/// the panic location, the stable part of a crash report
pub fn crash_signature(o: &Obs) -> String {
    let e = o.err_lossy();
    if let Some(p) = e.find("panicked at ") {
        let rest = &e[p + 12..];
        let loc: String = rest.chars().take_while(|c| !c.is_whitespace()).collect();
        // registry paths carry a machine-specific prefix
        let loc = loc.trim_end_matches(':').to_string();
        let loc = match loc.find("/src/") {
            Some(_) if loc.contains(".cargo/registry") => loc.rsplit('/').take(3).collect::<Vec<_>>().into_iter().rev().collect::<Vec<_>>().join("/"),
            _ => loc,
        };
        let msg: String = rest.lines().nth(1).unwrap_or("").chars().take(120).collect();
        return format!("panic at {loc}: {msg}");
    }
    if e.contains("has overflowed its stack") {
        return "stack overflow".into();
    }
    format!("status {:?}", o.status)
}

/// classes of listed findings (predicates on the text)
pub fn classes_of(text: &str) -> Vec<String> {
    let mut v = vec![];
    // printf with a `*` width/precision taken from an argument below i64::MIN + 1 (panic inside the uucore crate)
    if text.contains("printf") && text.contains('*') {
        let mut digits = 0;
        let mut neg = false;
        let mut hit = false;
        let cs: Vec<char> = text.chars().collect();
        for (i, ch) in cs.iter().enumerate() {
            if ch.is_ascii_digit() {
                if digits == 0 {
                    neg = i > 0 && cs[i - 1] == '-';
                }
                digits += 1;
                if neg && digits >= 19 {
                    hit = true;
                }
            } else {
                digits = 0;
            }
        }
        if hit {
            v.push("printf_star_width_below_i64_min".to_string());
        }
    }
    // more than 48 nested `${x:-` (stack exhaustion in the debug build)
    if text.matches("${x:-").count() > 48 {
        v.push("parameter_expansion_nested_beyond_48".to_string());
    }
    v
}

impl Layer for Exec {
    type Case = Case;
    fn name(&self) -> String {
        self.name.into()
    }
    fn render(&self, c: &Case) -> String {
        c.text.clone()
    }
    fn classes(&self, c: &Case) -> Vec<String> {
        classes_of(&c.text)
    }
    fn shrink_candidates(&self, c: &Case) -> Vec<Case> {
        let mut out = vec![];
        let lines: Vec<&str> = c.text.split_inclusive('\n').collect();
        if lines.len() > 1 {
            out.push(Case { text: lines[..lines.len() / 2].concat() });
            out.push(Case { text: lines[lines.len() / 2..].concat() });
            for i in 0..lines.len().min(40) {
                let mut l = lines.clone();
                l.remove(i);
                out.push(Case { text: l.concat() });
            }
        }
        let cs: Vec<char> = c.text.chars().collect();
        if cs.len() <= 80 {
            for i in 0..cs.len() {
                let mut n = cs.clone();
                n.remove(i);
                out.push(Case { text: n.into_iter().collect() });
            }
        } else {
            // word-wise
            let words: Vec<&str> = c.text.split_inclusive(' ').collect();
            if words.len() <= 60 {
                for i in 0..words.len() {
                    let mut w = words.clone();
                    w.remove(i);
                    out.push(Case { text: w.concat() });
                }
            }
        }
        out.retain(|x| !bvcommon::corpus::dangerous(&x.text));
        out
    }
    fn eval(&self, c: &Case) -> Verdict {
        if bvcommon::corpus::dangerous(&c.text) {
            return Verdict::skip("text not executed (names a command or path the sandbox does not allow)");
        }
        let limit = 6000;
        let o = run_case(ShellKind::Brush, &spec(&c.text, limit));
        let mut labels = vec![];
        if !c.text.is_ascii() {
            labels.push("multi-byte".to_string());
        }
        match &o.status {
            Status::Exit(0) => labels.push("status:0".into()),
            Status::Exit(2) => labels.push("status:2".into()),
            Status::Exit(_) => labels.push("status:other".into()),
            _ => {}
        }
        if o.stderr.is_empty() {
            labels.push("no-diagnostic".into());
        } else {
            labels.push("diagnostic".into());
        }
        let nontrivial = c.text.len() >= 4;
        let sample = json!({"text": bvcommon::exec::trunc(&c.text, 300), "status": format!("{:?}", o.status), "stderr": bvcommon::exec::trunc(&o.err_lossy(), 160)});
        if o.panicked() || matches!(o.status, Status::Signal(_)) {
            // unbounded recursion written in the program kills bash as well (SIGSEGV): not a shell defect
            if crash_signature(&o) == "stack overflow" {
                let b = run_case(ShellKind::Bash, &spec(&c.text, 6000));
                if matches!(b.status, Status::Signal(_) | Status::Timeout) || b.status == Status::Exit(139) {
                    labels.push("bash-dies-too".into());
                    return Verdict { outcome: Outcome::Skip("bash is killed by a signal (or still recursing after 6 s) on this text too: unbounded recursion".into()), labels, nontrivial, sample: Some(sample), weight: 1 };
                }
            }
            return Verdict { outcome: Outcome::Fail(format!("{} — {}", crash_signature(&o), bvcommon::exec::trunc(&o.err_lossy(), 500))), labels, nontrivial, sample: Some(sample), weight: 1 };
        }
        if o.status == Status::Timeout {
            // a hang counts only if bash ends quickly on the same text and brush hangs again with twice the time
            let b = run_case(ShellKind::Bash, &spec(&c.text, 3000));
            if b.status == Status::Timeout || b.wall_ms > 1500 {
                return Verdict { outcome: Outcome::Inconclusive("both shells are slow on this text".into()), labels, nontrivial, sample: Some(sample), weight: 1 };
            }
            let again = run_case(ShellKind::Brush, &spec(&c.text, limit * 2));
            let outcome = if again.status == Status::Timeout { Outcome::Fail(format!("hang: bash ends after {} ms, brush does not end within {} ms (twice)", b.wall_ms, limit * 2)) } else { Outcome::Inconclusive("time-out did not reproduce".into()) };
            return Verdict { outcome, labels, nontrivial, sample: Some(sample), weight: 1 };
        }
        Verdict { outcome: Outcome::Pass, labels, nontrivial, sample: Some(sample), weight: 1 }
    }
}

static CORPUS: OnceLock<Vec<String>> = OnceLock::new();
fn corpus() -> &'static Vec<String> {
    CORPUS.get_or_init(|| bvcommon::corpus::load().into_iter().filter(|s| !bvcommon::corpus::dangerous(s) && s.len() < 4000).collect())
}

pub fn templates() -> BoxedStrategy<Case> {
    prop_oneof![5 => mutate::template_strategy().prop_map(|t| Case { text: format!("{t}\n") }), 1 => (1usize..=64, 0usize..12).prop_map(|(d, k)| Case { text: format!("{}\n", mutate::nested(d, k)) })].boxed()
}

pub fn mutants() -> BoxedStrategy<Case> {
    let n = corpus().len().max(1);
    (0..n, proptest::collection::vec(mutate::edit_strategy(), 0..=3))
        .prop_map(|(i, edits)| {
            let base = corpus().get(i).cloned().unwrap_or_default();
            Case { text: mutate::apply(&base, &edits) }
        })
        .boxed()
}

pub fn run(run: &mut PropRun, ctx: &Ctx) {
    run.rule = "execution layers (brush run as an unprivileged user in a scratch directory, 6 s limit): (1) ~120 command templates (arithmetic, substring / slice / subscript operands, brace ranges, tilde, \
                descriptor numbers, printf widths, loop and jump counts, read/mapfile/getopts/ulimit/umask/history/dirs operands, prompt expansion, trap and alias names, regex and pattern operands) \
                with every operand slot filled from 31 boundary numbers (i64/u64 extremes in all bases, malformed literals) or 40 odd words, and 12 constructs nested 1..64 deep; (2) the ~2200 stdin \
                scripts of the repository's own YAML tests with 0-3 mutations (delete/duplicate/repeat-64x a span, insert a syntax fragment or boundary number, replace a number, truncate, delete or \
                swap lines). Library layers (in process, unprivileged worker): every string up to length 3 (quick) / 4 (thorough) over a 31-character metacharacter alphabet, fragment concatenations, \
                corpus mutants, the templates, through the tokenizer (4 option sets), program parser and printer, word / brace / here-document / arithmetic / pattern / prompt / test / key-binding \
                parsers, pattern matching, and the completion entry point at a spread of cursor positions. Oracle: no panic, abort or fatal signal (stderr `panicked at`, status 101/134, death by \
                signal, worker death), no call longer than 4 s in process, and no hang where bash ends within 1.5 s and brush twice exceeds 12 s; non-trivial = text of at least 4 bytes (2 in process)"
        .into();
    run.assumptions.push("texts naming commands or paths outside the sandbox's allow-list (kill, absolute system paths, ...) are not executed; syntax highlighting is covered by C19".into());
    let n = ctx.tier.pick(20_000, 400_000);
    run.add(explore(&Exec { name: "exec-templates" }, templates(), n, ctx));
    let n = ctx.tier.pick(3000, 120_000);
    run.add(explore(&Exec { name: "exec-corpus-mutants" }, mutants(), n, ctx));
    run.extra.insert("corpus_scripts".into(), json!(corpus().len()));
    crate::inproc::run_inproc("C01", ctx, run);
}

pub fn replay(layer: &str, case: &serde_json::Value) -> Result<(String, Verdict), String> {
    match layer {
        "exec-templates" => replay_case(&Exec { name: "exec-templates" }, case),
        "exec-corpus-mutants" => replay_case(&Exec { name: "exec-corpus-mutants" }, case),
        _ => crate::inproc::replay_inproc("C01", layer, case),
    }
}

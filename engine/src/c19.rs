//! C19 — highlighting tiles the line: all layers run in process (inproc/src/c19.rs).
use bvcommon::report::PropRun;
use bvcommon::runner::{Ctx, Verdict};

pub fn run(run: &mut PropRun, ctx: &Ctx) {
    run.rule = "lines over the shell metacharacter alphabet (22 symbols incl. newline and a multi-byte char) enumerated exhaustively up to \
                length 3 (quick) / 4 (thorough), plus random concatenations of shell fragments (keywords, quotes, substitutions, here-documents, \
                continuations, multi-byte); every cursor on a character boundary; invariant: spans ordered, contiguous, on char boundaries, \
                covering [0,len), concatenation reproduces the line, no panic; non-trivial = line tokenises to >= 2 tokens or fails to tokenise; \
                evaluations counts (line, cursor) pairs, distinct by line text"
        .into();
    run.assumptions.push("debug assertions on; the highlighter is called through brush_interactive::highlighting::highlight_command on a clone of a default Shell".into());
    crate::inproc::run_inproc("C19", ctx, run);
}

pub fn replay(layer: &str, case: &serde_json::Value) -> Result<(String, Verdict), String> {
    crate::inproc::replay_inproc("C19", layer, case)
}

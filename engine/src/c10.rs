//! C10 — redirections give each command bash's descriptors and are undone afterwards;
//! here-documents arrive byte-exact (differential vs bash: stdout, tagged stderr lines, exit
//! status, every file in the scratch directory incl. the descriptor reports of `fdprobe`).

use bvcommon::diff::bash_rejects;
use bvcommon::exec::{run_case, CaseSpec, Obs, ShellKind, Status};
use bvcommon::report::PropRun;
use bvcommon::runner::{check_floors, explore, replay_case, Ctx, Layer, Verdict};
use proptest::prelude::*;
use serde::{Deserialize, Serialize};
use serde_json::json;

// ---------------------------------------------------------------------------------------------
// common comparison
// ---------------------------------------------------------------------------------------------

fn tagged(err: &[u8]) -> Vec<String> {
    String::from_utf8_lossy(err).lines().filter(|l| l.starts_with("W") && l.contains(':') || l.starts_with("e:")).map(String::from).collect()
}

/// keep only lines written by the probes / present in the fixtures (diagnostics that a case
/// redirected into a file differ textually between the shells and are not compared)
fn is_tagged(l: &str) -> bool {
    l.starts_with('W') || l.starts_with("o:") || l.starts_with("e:") || l.starts_with('[') || l.starts_with("st") || l.starts_with('@')
}
fn is_fixture(l: &str) -> bool {
    ["one", "two", "lines"].contains(&l)
}
/// a diagnostic ended up in this content (then byte offsets and partially overwritten fixture
/// lines depend on the length of the message and are not compared)
fn has_diag(content: &[u8]) -> bool {
    String::from_utf8_lossy(content).lines().any(|l| !is_tagged(l) && !is_fixture(l))
}
fn strip_offsets(l: &str) -> String {
    // "=file:name:w:63" -> "=file:name:w"
    l.split(' ')
        .map(|t| {
            if t.contains("=file:") {
                let parts: Vec<&str> = t.rsplitn(2, ':').collect();
                if parts.len() == 2 && parts[0].chars().all(|c| c.is_ascii_digit() || c == '-') {
                    return parts[1].to_string();
                }
            }
            t.to_string()
        })
        .collect::<Vec<_>>()
        .join(" ")
}
fn filter_with(content: &[u8], keep_fixture: bool, keep_offsets: bool) -> String {
    String::from_utf8_lossy(content)
        .lines()
        .filter(|l| is_tagged(l) || (keep_fixture && is_fixture(l)))
        .map(|l| if keep_offsets { l.to_string() } else { strip_offsets(l) })
        .collect::<Vec<_>>()
        .join("\n")
}
fn filter_file(content: &[u8]) -> String {
    filter_with(content, true, true)
}

fn compare(bash: &Obs, brush: &Obs) -> Option<String> {
    compare_opt(bash, brush, false, false)
}

fn sorted_lines(s: &str) -> Vec<&str> {
    let mut v: Vec<&str> = s.lines().collect();
    v.sort_unstable();
    v
}

/// `concurrent`: the script has a pipeline, whose stages write at the same time; a file (or the
/// stdout) written by more than one of them is compared as a multiset of lines
fn compare_opt(bash: &Obs, brush: &Obs, filter_files: bool, concurrent: bool) -> Option<String> {
    if brush.panicked() {
        return Some(format!("brush crashed: {}", brush.err_lossy()));
    }
    let (so_a, so_b) = if filter_files { (filter_file(&bash.stdout), filter_file(&brush.stdout)) } else { (bash.out_lossy(), brush.out_lossy()) };
    if so_a != so_b && !(concurrent && sorted_lines(&so_a) == sorted_lines(&so_b)) {
        let a = so_a;
        let b = so_b;
        let la: Vec<&str> = a.lines().collect();
        let lb: Vec<&str> = b.lines().collect();
        let n = la.iter().zip(lb.iter()).take_while(|(x, y)| x == y).count();
        return Some(format!("stdout differs at line {n}: bash {:?} vs brush {:?} (previous line {:?})", la.get(n), lb.get(n), if n > 0 { la.get(n - 1) } else { None }));
    }
    let (ta, tb) = (tagged(&bash.stderr), tagged(&brush.stderr));
    if ta != tb {
        let n = ta.iter().zip(tb.iter()).take_while(|(x, y)| x == y).count();
        return Some(format!("tagged stderr lines differ at #{n}: bash {:?} vs brush {:?}", ta.get(n), tb.get(n)));
    }
    if bash.status != brush.status {
        return Some(format!("exit status differs: bash {:?} vs brush {:?}", bash.status, brush.status));
    }
    if bash.files != brush.files {
        // did any diagnostic land in a file? then offsets (and overwritten fixture text) are not comparable
        let diag_somewhere = filter_files && bash.files.values().chain(brush.files.values()).any(|v| has_diag(v));
        for (k, v) in &bash.files {
            match brush.files.get(k) {
                None => return Some(format!("file {k}: exists under bash only (content {:?})", String::from_utf8_lossy(v))),
                Some(w) => {
                    let (a, b) = if filter_files {
                        let d = has_diag(v) || has_diag(w);
                        {
                            // a file that received a diagnostic in either shell is not comparable at all;
                            // byte offsets reported by the probe depend on diagnostics written earlier
                            if d {
                                continue;
                            }
                            let _ = diag_somewhere;
                            (filter_with(v, true, false), filter_with(w, true, false))
                        }
                    } else {
                        (String::from_utf8_lossy(v).into_owned(), String::from_utf8_lossy(w).into_owned())
                    };
                    if a != b && !(concurrent && sorted_lines(&a) == sorted_lines(&b)) {
                        let la: Vec<&str> = a.lines().collect();
                        let lb: Vec<&str> = b.lines().collect();
                        let n = la.iter().zip(lb.iter()).take_while(|(x, y)| x == y).count();
                        return Some(format!("file {k} differs at line {n}: bash {:?} vs brush {:?}", la.get(n), lb.get(n)));
                    }
                }
            }
        }
        for k in brush.files.keys() {
            if !bash.files.contains_key(k) {
                return Some(format!("file {k}: exists under brush only"));
            }
        }
    }
    None
}

fn judge(spec: &CaseSpec) -> (Result<(), String>, Option<Verdict>, Obs, Obs) {
    judge_opt(spec, false)
}

fn judge_opt(spec: &CaseSpec, filter_files: bool) -> (Result<(), String>, Option<Verdict>, Obs, Obs) {
    let bash = run_case(ShellKind::Bash, spec);
    if bash_rejects(&bash) {
        return (Ok(()), Some(Verdict::skip("bash: syntax error")), bash.clone(), bash);
    }
    if bash.status == Status::Timeout {
        return (Ok(()), Some(Verdict::inconclusive("bash timed out")), bash.clone(), bash);
    }
    let brush = run_case(ShellKind::Brush, spec);
    if brush.status == Status::Timeout {
        return (Ok(()), Some(Verdict::inconclusive("brush timed out")), bash, brush);
    }
    match compare_opt(&bash, &brush, filter_files, spec.script.contains(" | ")) {
        Some(d) => (Err(d), None, bash, brush),
        None => (Ok(()), None, bash, brush),
    }
}

// ---------------------------------------------------------------------------------------------
// layer A: descriptor lists
// ---------------------------------------------------------------------------------------------

#[derive(Clone, Debug, Serialize, Deserialize)]
pub struct FdCase {
    pub noclobber: bool,
    /// (carrier kind, redirect list)
    pub cmds: Vec<(String, Vec<String>)>,
}

const CARRIERS: &[&str] = &["builtin", "external", "brace", "subshell", "function", "funcdef", "loop", "if", "exec", "nested", "pipeline-stage"];

fn redirect() -> BoxedStrategy<String> {
    let file = || proptest::sample::select(vec!["f1", "f2", "f3", "/dev/null", "nodir/x", "f1"]);
    let fd = || prop_oneof![3 => Just(String::new()), 2 => Just("1".to_string()), 2 => Just("2".to_string()), 2 => Just("3".to_string()), 1 => Just("4".to_string()), 1 => Just("0".to_string()), 1 => Just("9".to_string())];
    let dup = || proptest::sample::select(vec!["1", "2", "3", "4", "0", "7", "1", "2", "3", "1", "2", "0", "2", "-"]);
    prop_oneof![
        5 => (fd(), proptest::sample::select(vec![">", ">>", ">|", "<", "<>"]), file()).prop_map(|(n, op, f)| format!("{n}{op}{f}")),
        // (N>&N with N closed is an error in brush and a no-op in bash: kept out, it has no use)
        4 => (fd(), dup()).prop_map(|(n, m)| if n == m || (n.is_empty() && m == "1") { if n == "2" { "2>&1".to_string() } else { format!("{n}>&2") } } else { format!("{n}>&{m}") }),
        2 => (fd(), dup()).prop_map(|(n, m)| if n == m || (n.is_empty() && m == "0") { if n == "1" { "1<&0".to_string() } else { format!("{n}<&1") } } else { format!("{n}<&{m}") }),
        1 => file().prop_map(|f| format!("&>{f}")),
        1 => file().prop_map(|f| format!("&>>{f}")),
    ]
    .boxed()
}

fn fd_cases() -> BoxedStrategy<FdCase> {
    (any::<bool>(), proptest::collection::vec((proptest::sample::select(CARRIERS.to_vec()).prop_map(String::from), proptest::collection::vec(redirect(), 1..=4)), 2..=5))
        .prop_map(|(noclobber, cmds)| FdCase { noclobber, cmds })
        .boxed()
}

fn fd_script(c: &FdCase) -> String {
    let mut s = String::from("w() { echo \"o:$1\"; echo \"e:$1\" >&2; }\nfn() { w \"$1\"; fdprobe \"$1\"; }\n");
    if c.noclobber {
        s.push_str("set -C\n");
    }
    for (k, (carrier, redirs)) in c.cmds.iter().enumerate() {
        let r = redirs.join(" ");
        let line = match carrier.as_str() {
            "builtin" => format!("w c{k} {r}"),
            "external" => format!("fdprobe c{k} {r}"),
            "brace" => format!("{{ w c{k}; fdprobe c{k}; }} {r}"),
            "subshell" => format!("( w c{k}; fdprobe c{k} ) {r}"),
            "function" => format!("fn c{k} {r}"),
            "funcdef" => format!("fd{k}() {{ w \"$1\"; fdprobe \"$1\"; }} {r}\nfd{k} c{k}"),
            "loop" => format!("for i in 1 2; do w c{k}.$i; done {r}"),
            "if" => format!("if w c{k}; then fdprobe c{k}; fi {r}"),
            "exec" => format!("exec {r}"),
            "nested" => format!("{{ w c{k}a; {{ w c{k}b; fdprobe c{k}; }} {}; w c{k}c; }} {r}", redirs.first().cloned().unwrap_or_default()),
            _ => format!("w c{k} {r} | cat"),
        };
        s.push_str(&line);
        s.push_str(&format!("\necho \"st{k}:$?\"\nfdprobe after{k}\n"));
    }
    s.push_str("echo @END\n");
    s
}

pub struct Fds;

impl Layer for Fds {
    type Case = FdCase;
    fn name(&self) -> String {
        "descriptors".into()
    }
    fn render(&self, c: &FdCase) -> String {
        fd_script(c)
    }
    fn classes(&self, c: &FdCase) -> Vec<String> {
        fd_classes(c)
    }
    fn shrink_candidates(&self, c: &FdCase) -> Vec<FdCase> {
        let mut out = vec![];
        for i in 0..c.cmds.len() {
            if c.cmds.len() > 1 {
                let mut m = c.cmds.clone();
                m.remove(i);
                out.push(FdCase { cmds: m, ..c.clone() });
            }
        }
        for i in 0..c.cmds.len() {
            for j in 0..c.cmds[i].1.len() {
                if c.cmds[i].1.len() > 1 {
                    let mut m = c.cmds.clone();
                    m[i].1.remove(j);
                    out.push(FdCase { cmds: m, ..c.clone() });
                }
            }
            if c.cmds[i].0 != "builtin" && c.cmds[i].0 != "exec" {
                let mut m = c.cmds.clone();
                m[i].0 = "builtin".into();
                out.push(FdCase { cmds: m, ..c.clone() });
            }
        }
        if c.noclobber {
            out.push(FdCase { noclobber: false, ..c.clone() });
        }
        out
    }
    fn eval(&self, c: &FdCase) -> Verdict {
        let spec = CaseSpec {
            script: fd_script(c),
            files: vec![("f1".into(), "one\n".into()), ("f2".into(), "two\nlines\n".into())],
            timeout_ms: 15_000,
            collect_files: true,
            ..Default::default()
        };
        let (res, early, bash, brush) = judge_opt(&spec, true);
        let mut labels: Vec<String> = c.cmds.iter().map(|(k, _)| format!("carrier:{k}")).collect();
        let mut interacting = false;
        for (_, r) in &c.cmds {
            let fds: Vec<String> = r.iter().map(|x| x.chars().take_while(|ch| ch.is_ascii_digit()).collect::<String>()).collect();
            let mut seen = std::collections::BTreeSet::new();
            for f in &fds {
                if !seen.insert(f.clone()) {
                    interacting = true;
                    labels.push("same-fd-twice".into());
                }
            }
            if r.iter().any(|x| x.contains(">&") || x.contains("<&")) && r.len() >= 2 {
                interacting = true;
                labels.push("dup-with-other-redirects".into());
            }
            if r.iter().any(|x| x.ends_with("&-")) {
                labels.push("close".into());
            }
            if r.iter().any(|x| x.contains("nodir")) {
                labels.push("failing-redirect".into());
            }
        }
        if c.noclobber {
            labels.push("noclobber".into());
        }
        labels.sort();
        labels.dedup();
        if let Some(v) = early {
            return v.with_labels(labels);
        }
        let sample = json!({"stdout": bvcommon::exec::trunc(&brush.out_lossy(), 300), "probe.log": brush.files.get("probe.log").map(|b| bvcommon::exec::trunc(&String::from_utf8_lossy(b), 400))});
        let _ = bash;
        match res {
            Ok(()) => {
                let mut v = Verdict::pass(interacting).with_labels(labels).with_sample(sample);
                v.weight = c.cmds.len() as u64;
                v
            }
            Err(d) => Verdict::fail(d).with_labels(labels).with_sample(sample),
        }
    }
}

pub fn fd_classes(c: &FdCase) -> Vec<String> {
    let mut v = vec![];
    // closing a descriptor (`N>&-`, `N<&-`) for a command that involves an external process
    for (carrier, r) in &c.cmds {
        if carrier != "builtin" && carrier != "loop" && r.iter().any(|x| x.ends_with("&-")) {
            v.push("close_descriptor_for_external_command".to_string());
        }
    }
    v.sort();
    v.dedup();
    v
}

// ---------------------------------------------------------------------------------------------
// layer B: here-documents
// ---------------------------------------------------------------------------------------------

#[derive(Clone, Debug, Serialize, Deserialize)]
pub struct Doc {
    /// "<<" or "<<-"
    pub op: String,
    /// delimiter as written: EOF 'EOF' "EOF" \EOF E"O"F
    pub delim: String,
    pub lines: Vec<String>,
}

#[derive(Clone, Debug, Serialize, Deserialize)]
pub struct HdCase {
    pub docs: Vec<Doc>,
    /// plain | subst | function | loop | pipeline | two-on-one-line | herestring | trailing-words
    pub context: String,
}

fn bare(delim: &str) -> String {
    delim.chars().filter(|c| !"'\"\\".contains(*c)).collect()
}

const BODY_LINES: &[&str] = &["EOFx", "xEOF", " EOF", "EOF ", "$v", "\\$v", "`echo c`", "$(echo c)", "$((1+1))", "ends with backslash\\", "'q' \"d\"", "", "é €", "\tindented", "\t\ttwice", "plain text", "${v:-d}", "\\\\", "a \\", "#not a comment", "  two spaces", "\tEOFx"];

fn doc() -> BoxedStrategy<Doc> {
    (
        proptest::sample::select(vec!["<<", "<<-"]),
        proptest::sample::select(vec!["EOF", "EOF", "'EOF'", "\"EOF\"", "\\EOF", "E\"O\"F", "END"]),
        proptest::collection::vec(proptest::sample::select(BODY_LINES.to_vec()), 0..=8),
    )
        .prop_map(|(op, delim, lines)| {
            let b = bare(delim);
            // a body line that is exactly the terminator (after tab stripping for <<-) would end the document early
            let lines: Vec<String> = lines
                .into_iter()
                .map(|l| if b == "END" { l.replace("EOF", "END") } else { l.to_string() })
                .filter(|l| {
                    let t = if op == "<<-" { l.trim_start_matches('\t') } else { l.as_str() };
                    // (with <<- a continued line followed by a tab-indented one is joined before or
                    // after tab stripping depending on the shell: kept out)
                    t != b && !(op == "<<-" && l.ends_with('\\'))
                })
                .collect();
            let mut lines = lines;
            // with an unquoted delimiter a trailing backslash would continue onto the terminator line
            if !delim.contains(['\'', '"', '\\']) && lines.last().map(|l| l.ends_with('\\')).unwrap_or(false) {
                lines.push("after".to_string());
            }
            Doc { op: op.to_string(), delim: delim.to_string(), lines }
        })
        .boxed()
}

fn hd_cases() -> BoxedStrategy<HdCase> {
    (proptest::collection::vec(doc(), 1..=3), proptest::sample::select(vec!["plain", "subst", "function", "loop", "pipeline", "two-on-one-line", "herestring", "plain", "trailing-words", "trailing-words"]))
        .prop_map(|(docs, context)| HdCase { docs, context: context.to_string() })
        .boxed()
}

fn doc_text(d: &Doc, fd: &str) -> (String, String) {
    // returns (redirect operator text, body + terminator lines)
    let mut body = String::new();
    for l in &d.lines {
        body.push_str(l);
        body.push('\n');
    }
    let term = bare(&d.delim);
    // with an unquoted delimiter a trailing backslash would continue onto the terminator line
    if !d.delim.contains(['\'', '"', '\\']) && d.lines.last().map(|l| l.ends_with('\\')).unwrap_or(false) {
        body.push_str("after\n");
    }
    if d.op == "<<-" {
        body.push('\t');
    }
    body.push_str(&term);
    body.push('\n');
    (format!("{fd}{}{}", d.op, d.delim), body)
}

fn hd_script(c: &HdCase) -> String {
    let mut s = String::from("v=VAL\n");
    match c.context.as_str() {
        "two-on-one-line" if c.docs.len() >= 2 => {
            let (o1, b1) = doc_text(&c.docs[0], "");
            let (o2, b2) = doc_text(&c.docs[1], "3");
            s.push_str(&format!("{{ cat; echo ---; cat <&3; }} {o1} {o2}\n{b1}{b2}"));
            for d in c.docs.iter().skip(2) {
                let (o, b) = doc_text(d, "");
                s.push_str(&format!("cat {o}\n{b}"));
            }
        }
        "herestring" => {
            for d in &c.docs {
                let joined = d.lines.join(" ");
                let q = joined.replace('\'', "");
                s.push_str(&format!("cat <<< \"{}\"\ncat <<< '{}'\ncat <<< $v{}\n", q.replace('"', "").replace('\\', ""), q, d.lines.len()));
            }
        }
        ctx => {
            for (k, d) in c.docs.iter().enumerate() {
                let (o, b) = doc_text(d, "");
                match ctx {
                    "subst" => s.push_str(&format!("x{k}=$(cat {o}\n{b})\nprintf '%s|\\n' \"$x{k}\"\n")),
                    "function" => s.push_str(&format!("hf{k}() {{\ncat {o}\n{b}}}\nhf{k}\nhf{k} > out{k}.txt\n")),
                    "loop" => s.push_str(&format!("for i in 1 2; do\ncat {o}\n{b}done\n")),
                    "pipeline" => s.push_str(&format!("cat {o} | tr a-z A-Z\n{b}")),
                    // words with nested constructs after the operator, on its line
                    "trailing-words" => s.push_str(&format!(
                        "cat {o} > out-${{v}}-$((1+{k})).txt\n{b}cat out-VAL-{}.txt\necho w{k} {o} ${{v}} \"$(echo sub)\" $((2+3)) `echo bq` \"${{v:-d}}\" tail\n{b}",
                        k + 1
                    )),
                    _ => s.push_str(&format!("cat {o}\n{b}")),
                }
                s.push_str(&format!("echo \"st{k}:$?\"\n"));
            }
        }
    }
    s.push_str("echo @END\n");
    s
}

pub struct HereDocs;

pub fn hd_classes(c: &HdCase) -> Vec<String> {
    let _ = c;
    vec![]
}

impl Layer for HereDocs {
    type Case = HdCase;
    fn name(&self) -> String {
        "heredocs".into()
    }
    fn render(&self, c: &HdCase) -> String {
        hd_script(c)
    }
    fn classes(&self, c: &HdCase) -> Vec<String> {
        hd_classes(c)
    }
    fn shrink_candidates(&self, c: &HdCase) -> Vec<HdCase> {
        let mut out = vec![];
        for i in 0..c.docs.len() {
            if c.docs.len() > 1 {
                let mut d = c.docs.clone();
                d.remove(i);
                out.push(HdCase { docs: d, ..c.clone() });
            }
            for j in 0..c.docs[i].lines.len() {
                let mut d = c.docs.clone();
                d[i].lines.remove(j);
                out.push(HdCase { docs: d, ..c.clone() });
            }
        }
        if c.context != "plain" {
            out.push(HdCase { context: "plain".into(), ..c.clone() });
        }
        out
    }
    fn eval(&self, c: &HdCase) -> Verdict {
        let spec = CaseSpec { script: hd_script(c), timeout_ms: 15_000, collect_files: true, ..Default::default() };
        let (res, early, _bash, brush) = judge(&spec);
        let mut labels = vec![format!("ctx:{}", c.context)];
        let mut near = false;
        for d in &c.docs {
            labels.push(format!("op:{}", d.op));
            labels.push(if d.delim.contains(['\'', '"', '\\']) { "delim:quoted".to_string() } else { "delim:plain".to_string() });
            if d.lines.iter().any(|l| l.contains("EOF") || l.contains("END")) {
                near = true;
                labels.push("near-miss-line".into());
            }
            if d.lines.iter().any(|l| l.starts_with('\t')) {
                labels.push("tab-line".into());
            }
        }
        labels.sort();
        labels.dedup();
        if let Some(v) = early {
            return v.with_labels(labels);
        }
        let sample = json!({"stdout": bvcommon::exec::trunc(&brush.out_lossy(), 400)});
        match res {
            Ok(()) => {
                let mut v = Verdict::pass(near || c.docs.len() > 1).with_labels(labels).with_sample(sample);
                v.weight = c.docs.len() as u64;
                v
            }
            Err(d) => Verdict::fail(d).with_labels(labels).with_sample(sample),
        }
    }
}

pub fn run(run: &mut PropRun, ctx: &Ctx) {
    run.rule = "A: 2-5 commands, each a carrier (builtin writer function, external fdprobe, brace group, subshell, function call, function definition with redirects, loop, if, exec, nested groups, \
                pipeline stage) with a list of 1-4 redirections over < > >> >| <> N>&M N<&M N>&- N<&- &> &>> on descriptors 0-9 and files f1 f2 (existing) f3 (new) /dev/null and an \
                unwritable path, with and without noclobber; the external probe records for descriptors 0-9 closed / file:name:mode:append:offset / pipe / chr and writes a tagged line to every \
                writable descriptor, inside the command and again after it (the shell's own descriptors). B: 1-3 here-documents with bodies of 0-8 lines (near misses of the delimiter, tabs, \
                $v \\$v `cmd` $(cmd) $((…)), trailing backslashes, quotes, multi-byte), delimiters EOF 'EOF' \"EOF\" \\EOF E\"O\"F, << and <<-, in plain commands, $( ), functions, loops, \
                pipelines, two documents on one line, and here-strings. Differential vs bash 5.2.15 on stdout, tagged stderr lines, exit status and the contents of every file in the scratch \
                directory. non-trivial (A) = a list whose redirections interact (same fd twice, a dup next to other redirections); (B) = a near-miss line or several documents"
        .into();
    run.assumptions.push("bash 5.2.15 reference; diagnostics on stderr are not compared, only the tagged lines written by the probes".into());
    let n = ctx.tier.pick(2500, 50_000);
    let rep = explore(&Fds, fd_cases(), n, ctx);
    let floors: Vec<(&str, u64)> = vec![("same-fd-twice", n as u64 / 10), ("dup-with-other-redirects", n as u64 / 5), ("noclobber", n as u64 / 4), ("failing-redirect", n as u64 / 10), ("carrier:exec", n as u64 / 10), ("carrier:funcdef", n as u64 / 10)];
    if rep.failures.is_empty() {
        if let Some(m) = check_floors(&rep, &floors) {
            run.fatal = Some(format!("generator degenerate: {m}"));
        }
    }
    run.add(rep);
    let n = ctx.tier.pick(2000, 40_000);
    run.add(explore(&HereDocs, hd_cases(), n, ctx));
}

pub fn replay(layer: &str, case: &serde_json::Value) -> Result<(String, Verdict), String> {
    match layer {
        "descriptors" => replay_case(&Fds, case),
        "heredocs" => replay_case(&HereDocs, case),
        _ => Err(format!("C10: unknown layer {layer}")),
    }
}

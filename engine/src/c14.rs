//! C14 — printed function definitions re-parse to the same function.
//! In process: parse → print → parse → print on generated bodies (inproc/src/c14.rs).
//! Process level: `declare -f` / `type` / exported function text re-imported by brush and by bash
//! behaves like the original.

use bvcommon::exec::{run_case, CaseSpec, ShellKind};
use bvcommon::prog::{prog_strategy, GenCfg, Prog, PROLOGUE};
use bvcommon::report::PropRun;
use bvcommon::runner::{explore, replay_case, Ctx, Layer, Outcome, Verdict};
use serde_json::json;

pub struct Reimport;

const RAW: &[&str] = &[
    "t 3 0 >/dev/null",
    "t 4 1 2>&1",
    "cat <<<here",
    "read -r -u 3 hv 3<<< \"hello\"; echo \"hv:$hv\"",
    "{ read -r -u 4 hw; echo \"hw:$hw\"; } 4<<< fd4",
    "t 5 0 >&2 2>/dev/null",
    "{ t 6 0; } >/dev/null 2>&1",
    "while lim 90 1; do t 7 0; done >/dev/null",
    "x=1 y=2 t 8 0",
    "[[ a == a* ]] && t 9 0",
    "(( 1 + 1 )) || t 10 0",
    "! t 11 1",
    "t 12 0 | cat",
    "time -p t 13 0 2>/dev/null",
    "a=(1 2); t \"${a[1]}\" 0",
    "case x in (x|y) t 14 0 ;;& (*) t 15 0 ;; esac",
    "if t 16 0 & wait; then t 17 0; fi",
    "for ((k=0; k<2; k++)); do t 18 0; done 2>/dev/null >&2",
];

fn funcs_text(p: &Prog) -> String {
    p.render_funcs()
}

fn names(p: &Prog) -> Vec<String> {
    (0..p.funcs.len()).map(|i| format!("f{i}")).collect()
}

impl Layer for Reimport {
    type Case = Prog;
    fn name(&self) -> String {
        "reimport".into()
    }
    fn render(&self, p: &Prog) -> String {
        funcs_text(p)
    }
    fn classes(&self, p: &Prog) -> Vec<String> {
        crate::c02::classes(p)
    }
    fn shrink_candidates(&self, p: &Prog) -> Vec<Prog> {
        p.shrink_candidates().into_iter().filter(|q| !q.funcs.is_empty()).collect()
    }
    fn eval(&self, p: &Prog) -> Verdict {
        let defs = funcs_text(p);
        let fnames = names(p);
        let call = "f0 A B; echo \"@ST:$?\"\n";
        // 1. original under both shells; brush also dumps the three printed forms
        let mut dump = String::new();
        for n in &fnames {
            dump.push_str(&format!("declare -f {n} >> def.declare\n"));
            dump.push_str(&format!("type {n} | tail -n +2 >> def.type\n"));
        }
        let orig = format!("{PROLOGUE}{defs}{dump}{call}");
        let spec = |script: String, files: Vec<(String, String)>| CaseSpec { script, files, timeout_ms: 10_000, collect_files: true, ..Default::default() };
        let bash_orig = run_case(ShellKind::Bash, &spec(orig.clone(), vec![]));
        if bvcommon::diff::bash_rejects(&bash_orig) {
            return Verdict::skip("bash: syntax error in the original");
        }
        let brush_orig = run_case(ShellKind::Brush, &spec(orig.clone(), vec![]));
        if bash_orig.status == bvcommon::exec::Status::Timeout || brush_orig.status == bvcommon::exec::Status::Timeout {
            return Verdict::inconclusive("original timed out");
        }
        if brush_orig.panicked() {
            return Verdict::fail(format!("brush crashed on the original: {}", brush_orig.err_lossy()));
        }
        let labels: Vec<String> = p.facts().kinds.iter().map(|k| format!("kind:{k}")).collect();
        let nontrivial = p.facts().max_depth >= 2;
        let mut checked = 0u64;
        for form in ["def.declare", "def.type"] {
            let Some(text) = brush_orig.files.get(form) else {
                return Verdict::fail(format!("brush did not produce {form} (stderr: {})", brush_orig.err_lossy())).with_labels(labels);
            };
            let text = String::from_utf8_lossy(text).into_owned();
            let re = format!("{PROLOGUE}{text}\n{call}");
            // (a) fresh brush must accept it and behave like brush's original
            let b2 = run_case(ShellKind::Brush, &spec(re.clone(), vec![]));
            if b2.status == bvcommon::exec::Status::Timeout {
                return Verdict::inconclusive("re-import timed out");
            }
            if b2.stdout != brush_orig.stdout || b2.status != brush_orig.status {
                return Verdict::fail(format!(
                    "{form}: text printed by brush, re-read by brush, behaves differently: original {:?}/{:?} vs re-imported {:?}/{:?} (stderr {})\n--- printed ---\n{text}",
                    brush_orig.out_lossy(), brush_orig.status, b2.out_lossy(), b2.status, bvcommon::exec::trunc(&b2.err_lossy(), 300)
                ))
                .with_labels(labels);
            }
            // (b) bash must accept it and behave like bash's original
            let h2 = run_case(ShellKind::Bash, &spec(re.clone(), vec![]));
            if bvcommon::diff::bash_rejects(&h2) || h2.stdout != bash_orig.stdout || h2.status != bash_orig.status {
                return Verdict::fail(format!(
                    "{form}: text printed by brush, re-read by bash: bash original {:?}/{:?} vs re-imported {:?}/{:?} (stderr {})\n--- printed ---\n{text}",
                    bash_orig.out_lossy(), bash_orig.status, h2.out_lossy(), h2.status, bvcommon::exec::trunc(&h2.err_lossy(), 300)
                ))
                .with_labels(labels);
            }
            // (c) fixed point at the shell level: declare -f of the re-imported definition prints the same text
            if form == "def.declare" {
                let mut d2 = String::new();
                for n in &fnames {
                    d2.push_str(&format!("declare -f {n} >> def2.declare\n"));
                }
                let b3 = run_case(ShellKind::Brush, &spec(format!("{PROLOGUE}{text}\n{d2}"), vec![]));
                let t2 = b3.files.get("def2.declare").map(|b| String::from_utf8_lossy(b).into_owned()).unwrap_or_default();
                if t2 != text {
                    return Verdict::fail(format!("declare -f is not a fixed point:\n--- first ---\n{text}\n--- second ---\n{t2}")).with_labels(labels);
                }
            }
            checked += 3;
        }
        // exported functions: parent brush, child brush and child bash
        let export = format!("{PROLOGUE}{defs}export -f t lim nlim {}\n\"$BV_CHILD\" --norc --noprofile $BV_CHILD_FLAGS -c 'f0 A B; echo \"@ST:$?\"'\n", fnames.join(" "));
        for (child, flags, reference) in [
            (bvcommon::exec::brush_bin(), "--no-config", &brush_orig),
            (bvcommon::exec::bash_bin(), "", &bash_orig),
        ] {
            let mut s = spec(export.clone(), vec![]);
            s.env = vec![("BV_CHILD".into(), child.to_string_lossy().into_owned()), ("BV_CHILD_FLAGS".into(), flags.to_string())];
            let o = run_case(ShellKind::Brush, &s);
            if o.stdout != reference.stdout {
                return Verdict::fail(format!(
                    "function exported by brush to a child {}: child prints {:?}, the original prints {:?} (stderr {})",
                    child.display(), o.out_lossy(), reference.out_lossy(), bvcommon::exec::trunc(&o.err_lossy(), 300)
                ))
                .with_labels(labels);
            }
            checked += 1;
        }
        let mut v = Verdict::pass(nontrivial).with_labels(labels);
        v.weight = checked;
        v.sample = Some(json!({"declare -f": brush_orig.files.get("def.declare").map(|b| bvcommon::exec::trunc(&String::from_utf8_lossy(b), 500)), "stdout": brush_orig.out_lossy()}));
        v
    }
}

pub fn run(run: &mut PropRun, ctx: &Ctx) {
    run.rule = "in process: function bodies from a full program grammar (every compound command, redirect lists of 0-3 items of every kind on simple and compound commands \
                and on nested function definitions, here-strings, process substitutions, case items with ;; ;& ;;&, !/time pipelines, |&, [[ ]], (( )), arithmetic for, \
                coproc, nested functions, assignments incl. arrays, background lists): parse -> print -> parse must succeed, ASTs equal with locations erased, second print \
                equals first print. Process level: programs from the control-flow grammar (plus redirect/pipeline/array leaves) whose functions are printed by \
                declare -f and type and exported with export -f; the text is re-read by a fresh brush and by bash and must behave like the original in each \
                (stdout trace and status), and declare -f of the re-import must print the same text. non-trivial = body has a redirect/here-doc or >= 2 nested compounds"
        .into();
    run.assumptions.push("bodies that brush's parser rejects are outside the property (counted as skipped)".into());
    crate::inproc::run_inproc("C14", ctx, run);
    let cfg = GenCfg { depth: ctx.tier.pick(3, 4), max_list: 3, nfuncs: 2, raw: RAW.iter().map(|s| s.to_string()).collect(), raw_weight: 6, pipes: true, substs: true, evals: false, jumps: true, exits: false, probes: true, no_while: false };
    let n = ctx.tier.pick(400, 8000);
    run.add(explore(&Reimport, prog_strategy(&cfg), n, ctx));
}

pub fn replay(layer: &str, case: &serde_json::Value) -> Result<(String, Verdict), String> {
    match layer {
        "reimport" => replay_case(&Reimport, case),
        _ => crate::inproc::replay_inproc("C14", layer, case),
    }
}

#[allow(dead_code)]
fn _u(_: Outcome) {}

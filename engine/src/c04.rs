//! C04 — quoted expansions arrive byte-exact; expansion results are never re-parsed.
//! Model-based: the expected argument lists are computed by the harness; bash validates the model.

use bvcommon::exec::{run_case, CaseSpec, ShellKind, Status};
use bvcommon::report::PropRun;
use bvcommon::runner::{enumerate, explore, replay_case, Ctx, Layer, Verdict};
use proptest::prelude::*;
use serde::{Deserialize, Serialize};
use serde_json::json;

#[derive(Clone, Debug, Serialize, Deserialize, PartialEq, Eq)]
pub enum Ifs {
    Default,
    Empty,
    Unset,
    /// custom value (taken from the characters of v)
    Custom(String),
}

#[derive(Clone, Debug, Serialize, Deserialize)]
pub struct Case {
    pub v: String,
    pub ifs: Ifs,
    /// include the `"$*"` / `"${a[*]}"` checks
    #[serde(default = "yes")]
    pub star_join: bool,
    /// shopt/set options switched on: noglob nullglob failglob dotglob extglob
    pub opts: Vec<String>,
}

fn yes() -> bool {
    true
}

pub const ALPHABET: &[&str] = &[
    " ", "\t", "\n", "*", "?", "[", "]", "{", "}", ",", "~", "'", "\"", "\\", "$", "`", "(", ")", ";", "&", "|", "<", ">", "#", "!", "-", "=", "/", "a", "é", "€", ".",
];

fn dump(args: &[String]) -> String {
    let mut s = format!("argc={}\n", args.len());
    for a in args {
        s.push_str(&format!("{}:{}\n", a.len(), a));
    }
    s
}

fn ifs_first(ifs: &Ifs) -> String {
    match ifs {
        Ifs::Default | Ifs::Unset => " ".to_string(),
        Ifs::Empty => String::new(),
        Ifs::Custom(s) => s.chars().next().map(|c| c.to_string()).unwrap_or_default(),
    }
}

fn legal_filename(v: &str) -> bool {
    !v.is_empty() && !v.contains('/') && v != "." && v != ".." && v.len() < 200
}

pub const DIR_FILES: &[&str] = &["a", "b", "ab", ".h", "a b"];

/// (script, expected stdout, expected files (name, content))
fn build(c: &Case) -> (String, String, Vec<(String, String)>) {
    let v = &c.v;
    let mut s = String::new();
    let mut exp = String::new();
    let mut files = vec![];
    for o in ["nullglob", "failglob", "dotglob", "extglob"] {
        s.push_str(&format!("shopt -{} {o}\n", if c.opts.iter().any(|x| x == o) { "s" } else { "u" }));
    }
    if c.opts.iter().any(|x| x == "noglob") {
        s.push_str("set -f\n");
    }
    match &c.ifs {
        Ifs::Default => {}
        Ifs::Empty => s.push_str("IFS=\n"),
        Ifs::Unset => s.push_str("unset IFS\n"),
        Ifs::Custom(_) => s.push_str("IFS=$CUSTOM_IFS\n"),
    }
    let one = |x: &str| dump(&[x.to_string()]);
    let mut check = |code: &str, expected: String| {
        s.push_str(code);
        s.push('\n');
        exp.push_str(&expected);
    };
    check("argdump \"$X\"", one(v));
    check("argdump \"${X}\"", one(v));
    check("y=$X; argdump \"$y\"", one(v));
    check("y=\"$X\"; argdump \"$y\"", one(v));
    check("a=(\"$X\"); argdump \"${a[@]}\"", one(v));
    check("a=(\"$X\" \"$X\"); argdump \"${a[@]}\"", dump(&[v.clone(), v.clone()]));
    check("argdump \"$@\"", dump(&[v.clone(), "two".to_string()]));
    check("argdump \"$1\"", one(v));
    if c.star_join {
        check("argdump \"$*\"", one(&format!("{v}{}two", ifs_first(&c.ifs))));
        check("argdump \"${a[*]}\"", one(&format!("{v}{}{v}", ifs_first(&c.ifs))));
    }
    check("argdump \"$(printf %s \"$X\")\"", one(v.trim_end_matches('\n')));
    check("argdump \"`printf %s \\\"$X\\\"`\"", one(v.trim_end_matches('\n')));
    check("case \"$X\" in \"$X\") echo \"case:match\";; *) echo \"case:nomatch\";; esac", "case:match\n".to_string());
    check("case \"x$X\" in x\"$X\") echo \"case:match\";; *) echo \"case:nomatch\";; esac", "case:match\n".to_string());
    check("[[ \"$X\" == \"$X\" ]]; echo \"dbl:$?\"", "dbl:0\n".to_string());
    check("[[ $X == \"$X\" ]]; echo \"dbl:$?\"", "dbl:0\n".to_string());
    check("[ \"$X\" = \"$X\" ]; echo \"sgl:$?\"", "sgl:0\n".to_string());
    check("argdump \"pre${X}post\"", one(&format!("pre{v}post")));
    check("argdump \"${X:-d}\"", one(if v.is_empty() { "d" } else { v }));
    check("argdump \"${U:-$X}\"", one(v));
    check("argdump \"${U-\"$X\"}\"", one(v));
    check("argdump \"${#X}\"", one(&v.chars().count().to_string()));
    check("z=\"$X\"; argdump \"${z}\" \"${z}\"", dump(&[v.clone(), v.clone()]));
    check("f() { argdump \"$1\" \"$#\"; }; f \"$X\"", dump(&[v.clone(), "1".to_string()]));
    check("for w in \"$X\"; do argdump \"$w\"; done", one(v));
    check("printf '%s' \"$X\" > out.printf", String::new());
    files.push(("out.printf".to_string(), v.clone()));
    check("cat <<< \"$X\" > out.herestring", String::new());
    files.push(("out.herestring".to_string(), format!("{v}\n")));
    check("cat > out.heredoc <<EOF\n$X\nEOF", String::new());
    files.push(("out.heredoc".to_string(), format!("{v}\n")));
    check("cat > out.heredoc2 <<EOF\nx${X}y\nEOF", String::new());
    files.push(("out.heredoc2".to_string(), format!("x{v}y\n")));
    check("read -r r <<< \"$X\"; :", String::new());
    if legal_filename(v) {
        check("mkdir sub; echo data > \"sub/$X\"", String::new());
        // exactly one entry, named v, must exist under sub/ (checked on the collected directory)
        files.push((format!("sub/{v}"), "data\n".to_string()));
    }
    // ---- unquoted: only splitting and globbing may happen, never quote removal / brace / tilde / command parsing
    let whitespace_ifs = matches!(c.ifs, Ifs::Default | Ifs::Unset);
    if matches!(c.ifs, Ifs::Empty) {
        check("set -f; argdump $X; argdump pre${X}post", format!("{}{}", if v.is_empty() { dump(&[]) } else { one(v) }, one(&format!("pre{v}post"))));
    } else if whitespace_ifs {
        let fields: Vec<String> = v.split([' ', '\t', '\n']).filter(|f| !f.is_empty()).map(String::from).collect();
        check("set -f; argdump $X", dump(&fields));
        check("y=$X; argdump \"$y\"", one(v));
    }
    s.push_str("echo @END\n");
    exp.push_str("@END\n");
    (s, exp, files)
}

pub struct Quoted {
    pub name: &'static str,
}

fn spec_for(c: &Case) -> (CaseSpec, String, Vec<(String, String)>) {
    let (script, exp, files) = build(c);
    let mut env = vec![("X".to_string(), c.v.clone())];
    if let Ifs::Custom(s) = &c.ifs {
        env.push(("CUSTOM_IFS".to_string(), s.clone()));
    }
    let mut f: Vec<(String, String)> = DIR_FILES.iter().map(|n| (n.to_string(), "x".to_string())).collect();
    if legal_filename(&c.v) && !DIR_FILES.contains(&c.v.as_str()) {
        f.push((c.v.clone(), "x".to_string()));
    }
    let spec = CaseSpec { script, args: vec![c.v.clone(), "two".to_string()], env, files: f, timeout_ms: 10_000, collect_files: true, ..Default::default() };
    (spec, exp, files)
}

fn special(v: &str) -> bool {
    v.chars().any(|ch| !(ch.is_ascii_alphanumeric() || ch == '.' || ch == '_'))
}

impl Layer for Quoted {
    type Case = Case;
    fn name(&self) -> String {
        self.name.into()
    }
    fn render(&self, c: &Case) -> String {
        format!("X={:?} IFS={:?} opts={:?} star_join={}", c.v, c.ifs, c.opts, c.star_join)
    }
    fn classes(&self, c: &Case) -> Vec<String> {
        let mut v = vec![];
        if c.ifs == Ifs::Empty && c.star_join {
            v.push("empty_ifs_star_join".to_string());
        }
        v
    }
    fn shrink_candidates(&self, c: &Case) -> Vec<Case> {
        let mut out = vec![];
        let chars: Vec<char> = c.v.chars().collect();
        for i in 0..chars.len() {
            let mut t = chars.clone();
            t.remove(i);
            out.push(Case { v: t.into_iter().collect(), ..c.clone() });
        }
        for i in 0..c.opts.len() {
            let mut o = c.opts.clone();
            o.remove(i);
            out.push(Case { opts: o, ..c.clone() });
        }
        if c.ifs != Ifs::Default {
            out.push(Case { ifs: Ifs::Default, ..c.clone() });
        }
        out
    }
    fn eval(&self, c: &Case) -> Verdict {
        let (spec, exp, files) = spec_for(c);
        let mut labels = vec![];
        for (ch, l) in [(' ', "has-ifs-char"), ('\n', "has-newline"), ('*', "has-glob"), ('\'', "has-quote"), ('"', "has-quote"), ('$', "has-dollar"), ('\\', "has-backslash"), ('{', "has-brace"), ('~', "has-tilde"), ('`', "has-backquote")] {
            if c.v.contains(ch) {
                labels.push(l.to_string());
            }
        }
        if !c.v.is_ascii() {
            labels.push("multibyte".into());
        }
        labels.sort();
        labels.dedup();
        // the model is validated against bash first
        let bash = run_case(ShellKind::Bash, &spec);
        let model_ok = |o: &bvcommon::exec::Obs| -> Result<(), String> {
            if o.stdout != exp.as_bytes() {
                let a = &o.stdout;
                let e = exp.as_bytes();
                let n = a.iter().zip(e.iter()).take_while(|(x, y)| x == y).count();
                let ctx = |b: &[u8]| String::from_utf8_lossy(&b[n.saturating_sub(40).min(b.len())..(n + 100).min(b.len())]).into_owned();
                return Err(format!("stdout differs from the model at byte {n}: got …{:?}… expected …{:?}…", ctx(a), ctx(e)));
            }
            for (name, content) in &files {
                match o.files.get(name) {
                    Some(b) if b == content.as_bytes() => {}
                    Some(b) => return Err(format!("file {name}: got {:?}, expected {:?}", String::from_utf8_lossy(b), content)),
                    None => return Err(format!("file {name} missing")),
                }
            }
            let under_sub = o.files.keys().filter(|k| k.starts_with("sub/") && k.as_str() != "sub/").count();
            if under_sub > 1 {
                return Err(format!("redirect target \"sub/$X\" created {under_sub} entries: {:?}", o.files.keys().filter(|k| k.starts_with("sub/")).collect::<Vec<_>>()));
            }
            if o.files.contains_key("canary") {
                return Err("the value was executed as a command (file `canary` was created)".into());
            }
            Ok(())
        };
        if let Err(e) = model_ok(&bash) {
            return Verdict::skip(format!("oracle disagreement (model vs bash): {e}")).with_labels(labels);
        }
        let brush = run_case(ShellKind::Brush, &spec);
        if brush.status == Status::Timeout {
            return Verdict::inconclusive("brush timed out").with_labels(labels);
        }
        if brush.panicked() {
            return Verdict::fail(format!("brush crashed: {}", brush.err_lossy())).with_labels(labels);
        }
        match model_ok(&brush) {
            Ok(()) => {
                let mut v = Verdict::pass(special(&c.v)).with_labels(labels);
                v.weight = 30;
                v.sample = Some(json!({"stdout": bvcommon::exec::trunc(&brush.out_lossy(), 300)}));
                v
            }
            Err(e) => Verdict::fail(format!("{e} (brush stderr: {})", bvcommon::exec::trunc(&brush.err_lossy(), 300))).with_labels(labels),
        }
    }
}

fn configs_for(v: &str) -> Vec<(Ifs, Vec<String>)> {
    let custom: String = {
        // ASCII only: bash treats a multi-byte IFS character byte-wise in some paths.  Not a
        // character that occurs in the literal words of the check script either: brush also
        // splits *literal* unquoted text at non-whitespace IFS characters (a documented gap,
        // outside this property: see DESIGN.md).
        let mut s: String = v.chars().filter(|c| " \t\n?~'\"\\$`#!/,".contains(*c)).take(2).collect();
        s.push(',');
        s
    };
    let o = |l: &[&str]| l.iter().map(|s| s.to_string()).collect::<Vec<_>>();
    vec![
        (Ifs::Default, o(&[])),
        (Ifs::Empty, o(&[])),
        (Ifs::Unset, o(&["extglob"])),
        (Ifs::Custom(custom), o(&["dotglob"])),
        (Ifs::Default, o(&["nullglob", "extglob"])),
        (Ifs::Default, o(&["noglob"])),
        (Ifs::Empty, o(&["dotglob", "nullglob"])),
        (Ifs::Default, o(&["failglob"])),
    ]
}

pub fn all_values(max: usize) -> Vec<String> {
    let mut out = vec![String::new()];
    let mut frontier = vec![String::new()];
    for _ in 0..max {
        let mut next = vec![];
        for p in &frontier {
            for a in ALPHABET {
                next.push(format!("{p}{a}"));
            }
        }
        out.extend(next.iter().cloned());
        frontier = next;
    }
    out
}

const DICT: &[&str] = &[
    "$(touch canary)", "`touch canary`", "; touch canary;", "| touch canary", "& touch canary", "\n touch canary\n", "{a,b}", "~", "~root", "$HOME", "${X}", "$X", "\\$", "*", "a b", "  ", "'", "\"", "\\", "\\\\",
    "a*", "[ab]", "?", ".h", "@(a|b)", "!(a)", "$((1+1))", "<(echo)", "é", "€", "#", "!", "-n", "-e", "=", "x=y", "\t", "\n", "\n\n", ";;", "&&", ">f", "<f", "$'x'", "$\"x\"", "a\\ b", "*/", "/", ".", "..",
];

fn random_cases() -> BoxedStrategy<Case> {
    (proptest::collection::vec(prop_oneof![3 => proptest::sample::select(DICT.to_vec()).prop_map(String::from), 2 => proptest::sample::select(ALPHABET.to_vec()).prop_map(String::from)], 1..=8), 0usize..8)
        .prop_map(|(parts, k)| {
            let v: String = parts.concat();
            let (ifs, opts) = configs_for(&v)[k].clone();
            let star_join = ifs != Ifs::Empty || bvcommon::runner::hash_str(&v) % 8 == 0;
            Case { v, ifs, opts, star_join }
        })
        .boxed()
}

pub fn run(run: &mut PropRun, ctx: &Ctx) {
    run.rule = "values v over a 32-symbol adversarial alphabet (IFS characters, glob/brace metacharacters, quotes, $, backquote, backslash, newline, multi-byte): \
                all of length <= 2 (quick) / 3 (thorough) x 8 configurations (IFS default/empty/unset/custom from v; nullglob failglob dotglob extglob noglob), plus random \
                concatenations of dictionary fragments (command-injection canaries, braces, tildes, nested expansions); v enters through the environment and as $1, never \
                through the parser; one script checks ~30 contexts (\"$X\" \"${X}\" y=$X arrays \"$@\" \"$*\" \"$(printf)\" backquotes case [[ ]] [ ] here-string here-doc \
                redirect target, ${U:-$X}, function argument, for word, and unquoted $X under set -f) against expected argv/file bytes computed by the harness; the model \
                is validated against bash on every case (disagreement = skipped, counted); non-trivial = v contains a character outside [A-Za-z0-9._]; evaluations \
                counts context checks"
        .into();
    run.assumptions.push("values contain no NUL; expected results are computed by the harness and accepted only where bash 5.2.15 produces them too".into());
    let maxlen = ctx.tier.pick(2, 3);
    let mut cases = vec![];
    for v in all_values(maxlen) {
        // every value under the default configuration; the other configurations on a rotating basis (all of them for length <= 1)
        let cfgs = configs_for(&v);
        if v.chars().count() <= 1 || ctx.tier == bvcommon::runner::Tier::Thorough && v.chars().count() <= 2 {
            for (ifs, opts) in cfgs {
                let sj = ifs != Ifs::Empty || bvcommon::runner::hash_str(&v) % 8 == 0;
                cases.push(Case { v: v.clone(), ifs, opts, star_join: sj });
            }
        } else {
            let k = (bvcommon::runner::hash_str(&v) % 7 + 1) as usize;
            cases.push(Case { v: v.clone(), ifs: cfgs[0].0.clone(), opts: cfgs[0].1.clone(), star_join: true });
            let sj = cfgs[k].0 != Ifs::Empty || bvcommon::runner::hash_str(&v) % 8 == 0;
            cases.push(Case { v: v.clone(), ifs: cfgs[k].0.clone(), opts: cfgs[k].1.clone(), star_join: sj });
        }
    }
    let n = cases.len() as u64;
    let mut rep = enumerate(&Quoted { name: "exhaustive" }, cases.into_iter(), ctx, true, n);
    rep.notes.push(format!("all values of length <= {maxlen} over the alphabet; every value under the default configuration plus one rotating configuration (all 8 for short values)"));
    run.add(rep);
    let n = ctx.tier.pick(2000, 60_000);
    run.add(explore(&Quoted { name: "random" }, random_cases(), n, ctx));
}

pub fn replay(layer: &str, case: &serde_json::Value) -> Result<(String, Verdict), String> {
    match layer {
        "exhaustive" | "random" => replay_case(&Quoted { name: "random" }, case),
        _ => Err(format!("C04: unknown layer {layer}")),
    }
}

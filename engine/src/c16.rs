//! C16 — the EXIT trap runs exactly once on every way out; traps preserve `$?`.
//! Differential vs bash over termination paths x contexts x trap histories x handler kinds x
//! front-ends, plus an invariant on brush's own output (at most one marker line, last, showing the
//! terminating status, which is also the process status).

use crate::util::pair_sample;
use bvcommon::diff::{judge, DiffCfg};
use bvcommon::exec::{CaseSpec, Delivery, Status};
use bvcommon::prog::{prog_strategy, GenCfg, Prog, PROLOGUE};
use bvcommon::report::PropRun;
use bvcommon::runner::{check_floors, explore, replay_case, Ctx, Layer, Outcome, Verdict};
use proptest::prelude::*;
use serde::{Deserialize, Serialize};

#[derive(Clone, Debug, Serialize, Deserialize)]
pub struct Case {
    pub prog: Prog,
    /// lines placed before the program (initial trap registration, options)
    pub init: Vec<String>,
    /// "file" | "dash-c" | "stdin"
    pub delivery: String,
}

/// trap manipulations and terminating leaves mixed into the program
pub const RAW: &[&str] = &[
    "trap 'echo \"T$?\"' EXIT",
    "trap 'echo \"T$?\"' EXIT",
    "trap 'echo \"U$?\"' EXIT",
    "trap - EXIT",
    "trap 'echo \"T$?\"; false' EXIT",
    "trap 'hf; echo \"T$?\"' EXIT",
    "trap 'echo \"T$?\"; trap \"echo N\" EXIT' EXIT",
    "set -u",
    "echo \"x:$nosuchvar\"",
    "echo \"x:${nosuch?boom}\"",
    "eval 'exit 5'",
    "false",
    "t 50 1; echo \"@p:$?\"",
    "exit 7",
    "{ ( exit 6 ); }",
    "trap -p EXIT",
];

/// rare: shapes of known findings / statement edge
pub const RARE: &[&str] = &["trap 'echo \"T$?\"; exit 9' EXIT", "exec true", "exec echo replaced"];

impl Case {
    pub fn script(&self) -> String {
        let mut s = String::from(PROLOGUE);
        s.push_str("hf() { return 3; }\n");
        for l in &self.init {
            s.push_str(l);
            s.push('\n');
        }
        s.push_str(&self.prog.render_body());
        s.push_str("echo \"@END:$?\"\n");
        s
    }
    pub fn render(&self) -> String {
        format!("# delivery: {}\n{}{}", self.delivery, self.init.iter().map(|l| format!("{l}\n")).collect::<String>(), self.prog.render_body())
    }
}

pub struct Diff;

fn has_trap_raw(l: &[bvcommon::prog::Stmt]) -> bool {
    serde_json::to_string(l).map(|t| t.contains("{\"Raw\":\"trap ")).unwrap_or(false)
}

/// an EXIT trap manipulated inside a subshell-like context (outside the statement)
fn trap_in_subshell(l: &[bvcommon::prog::Stmt], inside: bool, funcs_set_traps: bool) -> bool {
    use bvcommon::prog::Stmt;
    l.iter().any(|s| match s {
        Stmt::Raw(t) => inside && t.starts_with("trap "),
        Stmt::Call(_) => inside && funcs_set_traps,
        Stmt::Subshell(x) | Stmt::SubstAssign(x) | Stmt::SubstArg(x) => trap_in_subshell(x, true, funcs_set_traps),
        Stmt::Pipe(x) => trap_in_subshell(x, true, funcs_set_traps),
        Stmt::Brace(x) => trap_in_subshell(x, inside, funcs_set_traps),
        Stmt::If { cond, then, elifs, els } => {
            trap_in_subshell(cond, inside, funcs_set_traps)
                || trap_in_subshell(then, inside, funcs_set_traps)
                || elifs.iter().any(|(c, b)| trap_in_subshell(c, inside, funcs_set_traps) || trap_in_subshell(b, inside, funcs_set_traps))
                || els.as_ref().map(|e| trap_in_subshell(e, inside, funcs_set_traps)).unwrap_or(false)
        }
        Stmt::While { extra, body, .. } => extra.as_ref().map(|(_, e)| trap_in_subshell(std::slice::from_ref(&**e), inside, funcs_set_traps)).unwrap_or(false) || trap_in_subshell(body, inside, funcs_set_traps),
        Stmt::For { body, .. } | Stmt::ArithFor { body, .. } => trap_in_subshell(body, inside, funcs_set_traps),
        Stmt::Case { items, .. } => items.iter().any(|(_, b, _)| trap_in_subshell(b, inside, funcs_set_traps)),
        Stmt::AndOr { first, rest } => trap_in_subshell(std::slice::from_ref(&**first), inside, funcs_set_traps) || rest.iter().any(|(_, r)| trap_in_subshell(std::slice::from_ref(r), inside, funcs_set_traps)),
        Stmt::Not(i) | Stmt::Eval(i) => trap_in_subshell(std::slice::from_ref(&**i), inside, funcs_set_traps),
        _ => false,
    })
}

pub fn out_of_domain(c: &Case) -> bool {
    let funcs_set_traps = c.prog.funcs.iter().any(|f| has_trap_raw(f));
    trap_in_subshell(&c.prog.main, false, funcs_set_traps) || c.prog.funcs.iter().any(|f| trap_in_subshell(f, false, funcs_set_traps))
}

pub fn classes_of(c: &Case) -> Vec<String> {
    let mut v = crate::c02::classes(&c.prog);
    let text = c.render();
    // the handler ends the shell itself: by `exit m`, or by a failing command while errexit is on
    let errexit = text.contains("set -e");
    if text.contains("exit 9' EXIT") || text.contains("exit 9'\\'' EXIT") || (errexit && (text.contains("false' EXIT") || text.contains("hf;") || text.contains("false'\\'' EXIT"))) {
        v.push("exit_inside_exit_handler".to_string());
    }
    v
}

/// invariant on one shell's observation: marker lines of the plain handler
fn invariant(out: &str, status: &Status, handler_may_exit: bool) -> Option<String> {
    let lines: Vec<&str> = out.lines().collect();
    let t: Vec<(usize, &str)> = lines.iter().enumerate().filter(|(_, l)| l.starts_with('T') && l[1..].chars().all(|c| c.is_ascii_digit()) && l.len() > 1).map(|(i, l)| (i, *l)).collect();
    if t.len() > 1 {
        return Some(format!("EXIT handler marker printed {} times: {:?}", t.len(), t));
    }
    if let Some((i, l)) = t.first() {
        // a handler that sets another trap prints "N"? no: the new trap must not run; allow nothing after T
        if *i != lines.len() - 1 {
            return Some(format!("EXIT handler marker `{l}` is not the last stdout line (followed by {:?})", &lines[i + 1..]));
        }
        if !handler_may_exit {
            if let (Ok(n), Status::Exit(code)) = (l[1..].parse::<i32>(), status) {
                if n != *code {
                    return Some(format!("EXIT handler saw $?={n} but the process ended with status {code}"));
                }
            }
        }
    }
    None
}

impl Layer for Diff {
    type Case = Case;
    fn name(&self) -> String {
        "diff".into()
    }
    fn classes(&self, c: &Case) -> Vec<String> {
        classes_of(c)
    }
    fn render(&self, c: &Case) -> String {
        c.render()
    }
    fn shrink_candidates(&self, c: &Case) -> Vec<Case> {
        let mut out = vec![];
        for i in 0..c.init.len() {
            let mut n = c.clone();
            n.init.remove(i);
            out.push(n);
        }
        if c.delivery != "file" {
            out.push(Case { delivery: "file".into(), ..c.clone() });
        }
        for p in c.prog.shrink_candidates() {
            out.push(Case { prog: p, ..c.clone() });
        }
        out
    }
    fn eval(&self, c: &Case) -> Verdict {
        if out_of_domain(c) {
            return Verdict::skip("EXIT trap manipulated inside a subshell (outside the statement)");
        }
        let delivery = match c.delivery.as_str() {
            "dash-c" => Delivery::DashC,
            "stdin" => Delivery::Stdin,
            _ => Delivery::File,
        };
        let spec = CaseSpec { script: c.script(), delivery, args: vec!["A1".into()], timeout_ms: 10_000, ..Default::default() };
        let (mut outcome, pair) = judge(&spec, &DiffCfg::default());
        // expansion errors: compare the status as zero / non-zero only (bash 5.2 uses 127 for ${x?})
        if let Outcome::Fail(_) = &outcome {
            let be = pair.bash.err_lossy();
            // the handler sees bash 5.2's 127 where brush (and bash 5.3) use 1
            let bash_out = pair.bash.out_lossy().replace("T127\n", "T1\n").replace("U127\n", "U1\n");
            if (be.contains("unbound variable") || be.contains("boom")) && bash_out == pair.brush.out_lossy() && !pair.brush.status.zero() && !pair.brush.panicked() {
                outcome = Outcome::Pass;
            }
        }
        let text = c.render();
        let f = c.prog.facts();
        let mut labels = vec![format!("frontend:{}", c.delivery)];
        for (needle, l) in [("exit 7", "path:exit-n"), ("set -e", "path:errexit"), ("nosuchvar", "path:nounset"), ("boom", "path:expansion-error"), ("eval 'if then' 2>/dev/null", "path:eval-syntax-error"), ("eval 'exit", "path:exit-in-eval"), ("exec ", "path:exec"), ("trap - EXIT", "trap:removed"), ("\"U$?\"", "trap:replaced"), ("false' EXIT", "handler:fails"), ("hf;", "handler:calls-function"), ("echo N", "handler:sets-trap"), ("ERR", "err-trap")] {
            if text.contains(needle) {
                labels.push(l.to_string());
            }
        }
        if f.kinds.contains("exit") {
            labels.push("path:exit-in-program".into());
        }
        let nontrivial = f.max_depth >= 1 || text.matches("trap ").count() >= 2;
        if matches!(outcome, Outcome::Pass) {
            // independent invariant on brush's own output (bash's output is checked too: a bash that
            // violates it means the invariant does not apply to this program -> skip)
            let may_exit = text.contains("exit 9' EXIT");
            let only_plain = !text.contains("\"U$?\"") && !text.contains("hf;") && !text.contains("false' EXIT") && !text.contains("echo N");
            if only_plain {
                if invariant(&pair.bash.out_lossy(), &pair.bash.status, may_exit).is_none() {
                    if let Some(v) = invariant(&pair.brush.out_lossy(), &pair.brush.status, may_exit) {
                        outcome = Outcome::Fail(format!("invariant: {v}"));
                    } else {
                        labels.push("invariant-checked".into());
                    }
                }
            }
        }
        Verdict { outcome, labels, nontrivial, sample: Some(pair_sample(&pair.bash, &pair.brush)), weight: 1 }
    }
}

pub fn strategy(ctx: &Ctx) -> BoxedStrategy<Case> {
    let raw: Vec<String> = RAW.iter().map(|s| s.to_string()).collect();
    let cfg = GenCfg { depth: ctx.tier.pick(3, 4), max_list: 3, nfuncs: 2, raw, raw_weight: 10, pipes: false, substs: true, evals: true, jumps: true, exits: true, probes: true, no_while: false };
    let init = proptest::collection::vec(
        proptest::sample::select(vec!["trap 'echo \"T$?\"' EXIT", "trap 'echo \"T$?\"' EXIT", "trap 'echo \"T$?\"' EXIT", "set -u", "set -e", "trap 'echo \"U$?\"' EXIT", "trap 'echo \"T$?\"' EXIT"]),
        0..=3,
    )
    .prop_map(|v| v.into_iter().map(String::from).collect());
    (prog_strategy(&cfg), init, proptest::sample::select(vec!["file", "file", "dash-c", "stdin"]), proptest::option::weighted(0.08, proptest::sample::select(vec!["exec true", "exec echo replaced", RARE[0]])))
        .prop_map(|(mut prog, init, delivery, exec)| {
            if let Some(e) = exec {
                prog.main.push(bvcommon::prog::Stmt::Raw(e.to_string()));
            }
            Case { prog, init, delivery: delivery.to_string() }
        })
        .prop_filter("EXIT trap inside a subshell", |c| !out_of_domain(c))
        .boxed()
}

// ---- ERR handlers preserve $? ---------------------------------------------------------------

#[derive(Clone, Debug, Serialize, Deserialize)]
pub struct ErrCase {
    pub handler: String,
    pub items: Vec<String>,
    pub errtrace: bool,
}

pub struct ErrPreserve;

fn err_items() -> BoxedStrategy<String> {
    let st = || proptest::sample::select(vec![0u8, 1, 1, 2, 77, 255]);
    prop_oneof![
        4 => (0u32..90, st()).prop_map(|(k, s)| format!("t {k} {s}; echo \"@p:$?\"")),
        2 => (0u32..90, st()).prop_map(|(k, s)| format!("{{ t {k} {s}; echo \"@g:$?\"; }}; echo \"@p:$?\"")),
        2 => (0u32..90, st()).prop_map(|(k, s)| format!("ef {k} {s}; echo \"@p:$?\"")),
        1 => (0u32..90, st()).prop_map(|(k, s)| format!("if t {k} 0; then t {k} {s}; echo \"@i:$?\"; fi; echo \"@p:$?\"")),
        1 => (0u32..90, st()).prop_map(|(k, s)| format!("for v in x y; do t {k} {s}; echo \"@l:$?\"; done")),
        1 => (0u32..90, st()).prop_map(|(k, s)| format!("( t {k} {s}; echo \"@s:$?\" ); echo \"@p:$?\"")),
        1 => Just("false; echo \"@p:$?\"".to_string()),
        1 => Just("true; echo \"@p:$?\"".to_string()),
    ]
    .boxed()
}

fn err_cases() -> BoxedStrategy<ErrCase> {
    (
        proptest::sample::select(vec!["echo \"E$?\"", "echo \"E$?\"; (exit 5)", "echo \"E$?\"; true", "echo \"E$?\"; false", "echo \"E$?\"; t 99 3"]),
        proptest::collection::vec(err_items(), 2..=7),
        proptest::bool::weighted(0.15),
        proptest::option::of(proptest::sample::select(vec!["exit 7", "exit 0", "exit"])),
    )
        .prop_map(|(h, mut items, errtrace, ex)| {
            if let Some(e) = ex {
                items.push(e.to_string());
            }
            ErrCase { handler: h.to_string(), items, errtrace }
        })
        .boxed()
}

impl ErrCase {
    fn script(&self) -> String {
        let mut s = String::from(PROLOGUE);
        s.push_str("ef() { t \"$1\" \"$2\"; echo \"@f:$?\"; return \"$2\"; }\n");
        if self.errtrace {
            s.push_str("set -E\n");
        }
        s.push_str(&format!("trap '{}' ERR\n", self.handler.replace('\'', "'\\''")));
        for i in &self.items {
            s.push_str(i);
            s.push('\n');
        }
        s.push_str("echo \"@END:$?\"\n");
        s
    }
}

impl Layer for ErrPreserve {
    type Case = ErrCase;
    fn name(&self) -> String {
        "err-handler".into()
    }
    fn render(&self, c: &ErrCase) -> String {
        c.script()[PROLOGUE.len()..].to_string()
    }
    fn classes(&self, c: &ErrCase) -> Vec<String> {
        let mut v = vec![];
        // brush also runs the ERR handler for `exit n` / `return n` themselves (visible for `exit n` at top
        // level, and for `return n` inside functions once errtrace makes them inherit the trap)
        let fails = |i: &String| !(i.contains(" 0;") || i.starts_with("true"));
        if c.items.iter().any(|i| i == "exit 7") || c.errtrace || (c.items.iter().any(|i| i == "exit") && c.items.iter().rev().nth(1).map(fails).unwrap_or(false)) {
            v.push("err_trap_fires_on_exit_and_return".to_string());
        }
        v
    }
    fn shrink_candidates(&self, c: &ErrCase) -> Vec<ErrCase> {
        let mut out = vec![];
        for i in 0..c.items.len() {
            if c.items.len() > 1 {
                let mut it = c.items.clone();
                it.remove(i);
                out.push(ErrCase { items: it, ..c.clone() });
            }
        }
        if c.errtrace {
            out.push(ErrCase { errtrace: false, ..c.clone() });
        }
        out
    }
    fn eval(&self, c: &ErrCase) -> Verdict {
        let spec = CaseSpec { script: c.script(), timeout_ms: 10_000, ..Default::default() };
        let (outcome, pair) = judge(&spec, &DiffCfg::default());
        let mut labels = vec![];
        if c.errtrace {
            labels.push("errtrace".to_string());
        }
        if c.handler.contains("(exit 5)") || c.handler.contains("false") || c.handler.contains("t 99") {
            labels.push("handler-changes-status-internally".into());
        }
        let fired = pair.bash.out_lossy().lines().filter(|l| l.starts_with('E')).count();
        if fired > 0 {
            labels.push("handler-fired".into());
        }
        Verdict { outcome, labels, nontrivial: fired > 0, sample: Some(pair_sample(&pair.bash, &pair.brush)), weight: 1 }
    }
}

pub fn run(run: &mut PropRun, ctx: &Ctx) {
    run.rule = "programs from the control-flow grammar with trap manipulations (EXIT handler set / replaced / removed / set inside functions, handlers that fail, call a function, set another \
                trap or exit; ERR handlers) and terminating leaves (exit n at any depth incl. eval and subshell, errexit and nounset failures, ${x?}, syntax error inside eval, exec) mixed in \
                at arbitrary positions, delivered as script file, -c string and on stdin; differential vs bash 5.2.15 on stdout and exit status (zero/non-zero after an expansion error); \
                independently, on brush's own output: the plain handler's marker line appears at most once, is the last stdout line, and shows the process's exit status; \
                non-trivial = termination or trap manipulation inside at least one construct, or >= 2 trap manipulations. Second layer: an ERR handler (printing $? and then changing the \
                status internally by a subshell exit, false, true or a function) with failing and succeeding commands at top level, in groups, functions, if bodies, loops and subshells, with and \
                without errtrace; $? is probed right after every command (the handler must leave it unchanged and must not re-enter itself); differential vs bash"
        .into();
    run.assumptions.push("bash 5.2.15 reference; EXIT traps set inside subshells are outside the statement".into());
    let n = ctx.tier.pick(3000, 60_000);
    let rep = explore(&Diff, strategy(ctx), n, ctx);
    let floors: Vec<(&str, u64)> = vec![("frontend:stdin", n as u64 / 8), ("frontend:dash-c", n as u64 / 8), ("path:errexit", n as u64 / 25), ("path:nounset", n as u64 / 20), ("path:expansion-error", n as u64 / 20), ("trap:removed", n as u64 / 20), ("trap:replaced", n as u64 / 20), ("handler:fails", n as u64 / 20), ("invariant-checked", n as u64 / 10)];
    if rep.failures.is_empty() {
        if let Some(m) = check_floors(&rep, &floors) {
            run.fatal = Some(format!("generator degenerate: {m}"));
        }
    }
    run.add(rep);
    let n = ctx.tier.pick(1500, 30_000);
    run.add(explore(&ErrPreserve, err_cases(), n, ctx));
}

pub fn replay(layer: &str, case: &serde_json::Value) -> Result<(String, Verdict), String> {
    match layer {
        "diff" => replay_case(&Diff, case),
        "err-handler" => replay_case(&ErrPreserve, case),
        _ => Err(format!("C16: unknown layer {layer}")),
    }
}

//! C18 — long sessions do not leak descriptors, children or internal stacks.
//! Metamorphic, brush against itself: a generated command sequence (control-flow grammar plus fault
//! leaves) is executed N times in one shell; resource probes after iteration 1, 2 and N must be
//! equal and every iteration must print what the first printed.

use bvcommon::exec::{run_case, CaseSpec, Obs, ShellKind, Status};
use bvcommon::prog::{prog_strategy, GenCfg, Prog, PROLOGUE};
use bvcommon::report::PropRun;
use bvcommon::runner::{check_floors, explore, replay_case, Ctx, Layer, Outcome, Verdict};
use proptest::prelude::*;
use serde::{Deserialize, Serialize};
use serde_json::json;

#[derive(Clone, Debug, Serialize, Deserialize)]
pub struct Case {
    pub prog: Prog,
    /// "inline" (text repeated), "function" (sequence is a function body, called N times),
    /// "eval" (sequence held in a variable, eval'ed N times), "source" (sequence in a file, sourced N times)
    pub mode: String,
    pub n: u32,
}

/// fault leaves and resource-using leaves (every one leaves the file system as it found it after
/// its first execution, so that iterations are comparable)
pub const RAW: &[&str] = &[
    "t 60 0 > /nonexistent-dir/x",
    "t 61 0 < ./missing-file",
    "t 61 0 2> /nonexistent-dir/x",
    "nosuchcmd-xyz a b",
    "( : \"${nosuch?boom}\" )",
    "RO=2",
    "RO=3 t 62 0",
    "TMPX=1 ff",
    "TMPX=1 ff > /nonexistent-dir/x",
    "TMPX=1 nosuchcmd-xyz",
    "TMPX=1 gg",
    "TMPX=1 gg < ./missing-file",
    "TMPX=1 RO=4 ff",
    ". ./nosuch-file",
    ". ./src-fail",
    "TMPX=1 . ./src-fail",
    "v=$(nosuchcmd-xyz)",
    "v=$(exit 3)",
    "v=$(t 63 0 > /nonexistent-dir/x)",
    "cat <(echo ps) > /dev/null",
    "cat < <(echo ps) > /dev/null",
    "t 63 0 > >(cat > /dev/null)",
    "{ cat <<EOF > /dev/null\nhd $W\nEOF\n}",
    "{ cat <<EOF > /nonexistent-dir/x\nhd $W\nEOF\n}",
    "cat <<< hs > /dev/null",
    "/bin/true & wait",
    "( t 64 1 ) & wait $!",
    "exec 3< /dev/null; exec 3<&-",
    "exec 4< /dev/null",
    "{ t 65 0; } 5> f5 6< /dev/null",
    "{ t 65 0; } 5> f5 6< ./missing-file",
    "t 66 0 | cat | cat",
    "t 66 0 | { cat >/dev/null; nosuchcmd-xyz; } | cat",
    "( eval 'if then' ) 2>/dev/null",
    "cd /nonexistent-dir",
    "echo \"${W:1:-9}\"",
    "(( 1/0 ))",
    "read -r rv < ./missing-file",
    "read -r rv < f6; echo \"rv:$rv\"",
    "mapfile -t arr < ./missing-file",
    "while read -r l; do t 67 0; break; done < f6",
    "for q in 1 2; do while :; do ff; break 2; done; done < f6",
    "pushd /nonexistent-dir > /dev/null",
    "pushd . > /dev/null; popd > /dev/null",
    "rec 5",
    "TMPX=1 rec 3 2> /dev/null",
    "eval 't 68 0 > /nonexistent-dir/x'",
    "eval 'ff'",
    "command -v nosuchcmd-xyz",
    "declare -A RO",
    "hh",
    "hh B1 B2 B3",
    "TMPX=1 hw",
    "hk",
    "TMPX=1 hk B1",
    "hv",
];

const HELPERS: &str = "readonly RO=1\nW=abc\n\
ff() { local y=1; t 70 0 > /nonexistent-dir/x; return 3; }\n\
gg() { local z=2; for i in 1 2; do while :; do t 71 0; return 4; done; done; }\n\
hh() { t 74 0; } < ./missing-file\n\
hw() { local w=1; t 75 0; } > /nonexistent-dir/x\n\
hk() { read -r kl; t 76 0; } < f6\n\
hv() { t 77 0; } < ./missing-$1\n\
rec() { local d=$1; if (( d > 0 )); then rec $(( d - 1 )); else nosuchcmd-xyz; fi; }\n";

const PROBE: &str = "wait; echo \"R $(fdcount $$ --settle) depth=${#FUNCNAME[@]} src=${#BASH_SOURCE[@]} args=$# tx=${TMPX-unset} dirs=${#DIRSTACK[@]}\"; local zz 2>/dev/null; echo \"R local=$?\"\n";

impl Case {
    fn probe_points(&self) -> Vec<u32> {
        let mut v = vec![1, 2, self.n];
        v.dedup();
        v.retain(|k| *k <= self.n);
        v
    }

    pub fn seq(&self) -> String {
        let r = self.prog.render_body();
        // render_body includes the function definitions; keep only main
        let funcs = self.prog.render_funcs();
        r[funcs.len()..].to_string()
    }

    pub fn script(&self) -> String {
        let mut s = String::from(PROLOGUE);
        s.push_str(HELPERS);
        s.push_str(&self.prog.render_funcs());
        let seq = self.seq();
        match self.mode.as_str() {
            "function" => s.push_str(&format!("body() {{\n{seq}}}\n")),
            "eval" => s.push_str(&format!("SEQ='{}'\n", seq.replace('\'', "'\\''"))),
            _ => {}
        }
        let probes = self.probe_points();
        for k in 1..=self.n {
            s.push_str(&format!("echo \"@IT:{k}\"; echo \"@IT:{k}\" >&2\n"));
            match self.mode.as_str() {
                "function" => s.push_str("body\n"),
                "eval" => s.push_str("eval \"$SEQ\"\n"),
                "source" => s.push_str(". ./seq.sh\n"),
                _ => s.push_str(&seq),
            }
            s.push_str("echo \"@E:$?\"\n");
            if probes.contains(&k) {
                s.push_str(PROBE);
            }
        }
        s.push_str("echo \"@END\"\n");
        s
    }

    pub fn spec(&self) -> CaseSpec {
        let mut files = vec![("src-fail".to_string(), "for s in 1 2; do t 72 0; t 73 0 > /nonexistent-dir/x; return 4; done\n".to_string()), ("f6".to_string(), "l1\nl2\n".to_string()), ("f5".to_string(), String::new())];
        if self.mode == "source" {
            files.push(("seq.sh".into(), self.seq()));
        }
        CaseSpec { script: self.script(), args: vec!["A1".into(), "A2".into()], files, timeout_ms: 20_000 + 40 * self.n as u64, ..Default::default() }
    }

    pub fn render(&self) -> String {
        format!("# mode: {} n: {}\n{}{}", self.mode, self.n, self.prog.render_funcs(), self.seq())
    }
}

/// normalised stderr: line numbers differ between iterations by construction
fn norm_err(s: &str) -> String {
    let mut out = String::new();
    let mut prev_digit = false;
    for c in s.chars() {
        if c.is_ascii_digit() {
            if !prev_digit {
                out.push('N');
            }
            prev_digit = true;
        } else {
            prev_digit = false;
            out.push(c);
        }
    }
    out
}

#[derive(Debug, Default)]
struct Parsed {
    /// stdout of each iteration (without the R lines)
    iters: Vec<String>,
    /// R lines after iteration k
    probes: Vec<(u32, String)>,
    ended: bool,
}

fn parse(out: &str) -> Parsed {
    let mut p = Parsed::default();
    let mut cur: Option<String> = None;
    let mut cur_k = 0u32;
    for line in out.lines() {
        if let Some(k) = line.strip_prefix("@IT:") {
            if let Some(c) = cur.take() {
                p.iters.push(c);
            }
            cur_k = k.parse().unwrap_or(0);
            cur = Some(String::new());
        } else if line == "@END" {
            if let Some(c) = cur.take() {
                p.iters.push(c);
            }
            p.ended = true;
        } else if let Some(r) = line.strip_prefix("R ") {
            // children still running are not a leak; drop the field
            let r: Vec<&str> = r.split(' ').filter(|f| !f.starts_with("children=")).collect();
            let r = r.join(" ");
            match p.probes.last_mut() {
                Some((k, s)) if *k == cur_k => {
                    s.push(' ');
                    s.push_str(&r);
                }
                _ => p.probes.push((cur_k, r)),
            }
        } else if let Some(c) = cur.as_mut() {
            c.push_str(line);
            c.push('\n');
        }
    }
    if let Some(c) = cur.take() {
        p.iters.push(c);
    }
    p
}

fn err_iters(err: &str) -> Vec<String> {
    let mut v = vec![];
    let mut cur: Option<String> = None;
    for line in err.lines() {
        if line.starts_with("@IT:") {
            if let Some(c) = cur.take() {
                v.push(c);
            }
            cur = Some(String::new());
        } else if let Some(c) = cur.as_mut() {
            c.push_str(&norm_err(line));
            c.push('\n');
        }
    }
    if let Some(c) = cur.take() {
        v.push(c);
    }
    // the stages of a pipeline run concurrently, so the order of their diagnostics is not fixed: compare
    // each iteration's diagnostics as a multiset of lines
    v.into_iter()
        .map(|it| {
            let mut lines: Vec<&str> = it.lines().collect();
            lines.sort_unstable();
            lines.join("\n")
        })
        .collect()
}

/// None = property holds on this observation; Some(reason) otherwise.  Err = nothing to compare.
fn oracle(c: &Case, o: &Obs) -> Result<Option<String>, String> {
    if o.status == Status::Timeout {
        return Err("timeout".into());
    }
    let p = parse(&o.out_lossy());
    if p.iters.is_empty() {
        return Err("no iteration ran".into());
    }
    if p.iters.len() == 1 && !p.ended && c.n > 1 {
        return Err("the shell ended during the first iteration".into());
    }
    if !p.ended || p.iters.len() != c.n as usize {
        return Ok(Some(format!("the shell stopped in iteration {} of {} (status {:?}) although iteration 1 completed", p.iters.len(), c.n, o.status)));
    }
    for (k, it) in p.iters.iter().enumerate() {
        if *it != p.iters[0] {
            return Ok(Some(format!("iteration {} printed\n{}\nbut iteration 1 printed\n{}", k + 1, it, p.iters[0])));
        }
    }
    let e = err_iters(&o.err_lossy());
    for (k, it) in e.iter().enumerate() {
        if *it != e[0] {
            return Ok(Some(format!("iteration {} wrote to stderr\n{}\nbut iteration 1 wrote\n{}", k + 1, it, e[0])));
        }
    }
    let want = c.probe_points().len();
    if p.probes.len() != want {
        return Ok(Some(format!("{} resource probes reported, {} expected: {:?}", p.probes.len(), want, p.probes)));
    }
    let (_, first) = &p.probes[0];
    for (k, r) in &p.probes {
        if r != first {
            return Ok(Some(format!("after {k} iteration(s): {r}\nafter 1 iteration:     {first}")));
        }
    }
    if !first.contains("local=") || first.contains("local=0") {
        return Ok(Some(format!("`local` at top level succeeded: {first}")));
    }
    Ok(None)
}

pub struct Leak;

impl Layer for Leak {
    type Case = Case;
    fn name(&self) -> String {
        "repeat".into()
    }
    fn classes(&self, c: &Case) -> Vec<String> {
        crate::c02::classes(&c.prog)
    }
    fn render(&self, c: &Case) -> String {
        c.render()
    }
    fn shrink_candidates(&self, c: &Case) -> Vec<Case> {
        let mut out = vec![];
        if c.mode != "inline" {
            out.push(Case { mode: "inline".into(), ..c.clone() });
        }
        for n in [2u32, 3, 10] {
            if n < c.n {
                out.push(Case { n, ..c.clone() });
            }
        }
        for p in c.prog.shrink_candidates() {
            out.push(Case { prog: p, ..c.clone() });
        }
        out
    }
    fn eval(&self, c: &Case) -> Verdict {
        let spec = c.spec();
        let o = run_case(ShellKind::Brush, &spec);
        let text = c.render();
        let f = c.prog.facts();
        let mut labels = vec![format!("mode:{}", c.mode), format!("n:{}", c.n)];
        for (needle, l) in [
            ("/nonexistent-dir/x", "fault:redirect-target"),
            ("missing-file", "fault:missing-input"),
            ("nosuchcmd", "fault:unknown-command"),
            ("RO=", "fault:readonly"),
            ("TMPX=1", "temporary-assignment"),
            ("boom", "fault:expansion-error"),
            ("src-fail", "fault:in-sourced-file"),
            ("<(", "process-substitution"),
            (">(", "process-substitution"),
            ("<<EOF", "here-document"),
            ("& wait", "background-job"),
            ("exec ", "exec-redirect"),
            ("rec ", "recursion"),
            ("gg", "return-from-nested-loops"),
            ("hh", "fault:function-definition-redirect"),
            ("hw", "fault:function-definition-redirect"),
            ("hv", "fault:function-definition-redirect"),
            ("$(", "command-substitution"),
            (" | ", "pipeline"),
        ] {
            if text.contains(needle) {
                labels.push(l.to_string());
            }
        }
        if f.kinds.contains("break") || f.kinds.contains("continue") || f.kinds.contains("return") {
            labels.push("jump".into());
        }
        let faults = labels.iter().filter(|l| l.starts_with("fault:")).count();
        let nontrivial = c.n >= 10 && faults >= 1 && f.max_depth >= 1;
        if o.status.is_crash() || o.err_lossy().contains("panicked at") {
            return Verdict { outcome: Outcome::Fail(format!("brush crashed: {}", o.summary())), labels, nontrivial, sample: None, weight: 1 };
        }
        let outcome = match oracle(c, &o) {
            Err(e) if e == "timeout" => Outcome::Inconclusive(e),
            Err(e) => Outcome::Skip(e),
            Ok(None) => Outcome::Pass,
            Ok(Some(reason)) => {
                // guard against sequences that are not repeatable by construction: bash must satisfy the
                // same relation on the same script; and the failure must reproduce
                let b = run_case(ShellKind::Bash, &spec);
                match oracle(c, &b) {
                    Ok(None) => {
                        let o2 = run_case(ShellKind::Brush, &spec);
                        match oracle(c, &o2) {
                            Ok(Some(_)) => Outcome::Fail(reason),
                            _ => Outcome::Inconclusive(format!("not reproducible: {reason}")),
                        }
                    }
                    Ok(Some(br)) => Outcome::Skip(format!("sequence is not repeatable under bash either: {}", br.lines().next().unwrap_or(""))),
                    Err(e) => Outcome::Skip(format!("bash: {e}")),
                }
            }
        };
        let p = parse(&o.out_lossy());
        let sample = json!({"rendered": bvcommon::exec::trunc(&text, 600), "probes": p.probes, "iteration1": bvcommon::exec::trunc(p.iters.first().map(|s| s.as_str()).unwrap_or(""), 300)});
        Verdict { outcome, labels, nontrivial, sample: Some(sample), weight: 1 }
    }
}

pub fn strategy(ctx: &Ctx) -> BoxedStrategy<Case> {
    // leaves made of several commands are grouped, so that they stay one unit wherever the grammar puts
    // them (pipeline stage, operand of && / ||, condition)
    let raw: Vec<String> = RAW
        .iter()
        .map(|s| if s.contains(" & ") || (s.contains("; ") && !s.starts_with('{') && !s.starts_with('(') && !s.starts_with("for ") && !s.starts_with("while ")) { format!("{{ {s}; }}") } else { s.to_string() })
        .collect();
    let cfg = GenCfg { depth: ctx.tier.pick(3, 4), max_list: 3, nfuncs: 2, raw, raw_weight: 14, pipes: true, substs: true, evals: true, jumps: true, exits: false, probes: true, no_while: true };
    let big = ctx.tier.pick(50, 500);
    (
        prog_strategy(&cfg),
        proptest::sample::select(vec!["inline", "inline", "function", "eval", "source"]),
        prop_oneof![1 => Just(2u32), 6 => Just(50u32), 2 => Just(big), 1 => 3u32..30],
    )
        .prop_map(|(prog, mode, n)| Case { prog, mode: mode.to_string(), n })
        .boxed()
}

pub fn run(run: &mut PropRun, ctx: &Ctx) {
    run.rule = "command sequences from the control-flow grammar (lists, if, for, arithmetic for, case, groups, subshells, pipelines, command substitutions, eval, functions, break/continue/return \
                with level counts) with fault leaves mixed in (redirect to an unwritable target / from a missing file on simple commands, groups, functions and here-documents; unknown commands, \
                also as pipeline stages; ${x?}; assignments and temporary assignments to a readonly variable; failing functions, sourced files and recursive functions called with temporary \
                assignments; return out of nested loops; process substitutions; background jobs; exec redirections; pushd; arithmetic and substring errors), executed N in {2, 3..30, 50 (quick) / 500 \
                (thorough)} times in one brush process as repeated text, as a function body, through eval, or through `source`; oracle: the probe line after iteration 2 and N (open descriptors and zombie \
                children of the shell read from /proc by an external helper once stable, ${#FUNCNAME[@]}, ${#BASH_SOURCE[@]}, $#, visibility of the temporary variable, directory-stack depth, \
                `local` still failing at top level) equals the one after iteration 1, and every iteration's stdout and (digit-normalised, line-sorted) stderr equals the first iteration's; a failure is \
                reported only if bash satisfies the same relation on the same script and the failure reproduces; non-trivial = N >= 10, at least one fault leaf, nesting depth >= 1"
        .into();
    run.assumptions.push("descriptor and zombie counts are sampled from outside the shell until three samples 10 ms apart agree".into());
    let n = ctx.tier.pick(2500, 30_000);
    let rep = explore(&Leak, strategy(ctx), n, ctx);
    let n64 = n as u64;
    let floors: Vec<(&str, u64)> = vec![
        ("mode:function", n64 / 10),
        ("mode:eval", n64 / 10),
        ("mode:source", n64 / 10),
        ("fault:redirect-target", n64 / 5),
        ("fault:unknown-command", n64 / 8),
        ("fault:readonly", n64 / 10),
        ("temporary-assignment", n64 / 6),
        ("process-substitution", n64 / 12),
        ("background-job", n64 / 12),
        ("jump", n64 / 6),
    ];
    if rep.failures.is_empty() {
        if let Some(m) = check_floors(&rep, &floors) {
            run.fatal = Some(format!("generator degenerate: {m}"));
        }
    }
    run.add(rep);
}

pub fn replay(layer: &str, case: &serde_json::Value) -> Result<(String, Verdict), String> {
    match layer {
        "repeat" => replay_case(&Leak, case),
        _ => Err(format!("C18: unknown layer {layer}")),
    }
}

//! C08 — patterns.  In-process layers (reference matcher, exhaustive) live in inproc/src/c08.rs;
//! here: the shell contexts (case, [[ ]], ${s#p}…) and pathname expansion, differential vs bash.

use crate::util::pair_sample;
use bvcommon::diff::{judge, DiffCfg};
use bvcommon::exec::CaseSpec;
use bvcommon::globmodel::{self, Opts};
use bvcommon::report::PropRun;
use bvcommon::runner::{explore, replay_case, Ctx, Layer, Outcome, Verdict};
use proptest::prelude::*;
use serde::{Deserialize, Serialize};

#[derive(Clone, Debug, Serialize, Deserialize)]
pub struct CtxCase {
    pub p: String,
    pub subjects: Vec<String>,
    pub extglob: bool,
    pub nocase: bool,
}

pub struct Contexts;

fn script(c: &CtxCase) -> String {
    let mut s = String::new();
    s.push_str(&format!("shopt -{} extglob\n", if c.extglob { "s" } else { "u" }));
    s.push_str(&format!("shopt -{} nocasematch\n", if c.nocase { "s" } else { "u" }));
    for i in 0..c.subjects.len() {
        s.push_str(&format!(
            "S=$S{i}\ncase \"$S\" in $P) echo \"{i} case:1\";; *) echo \"{i} case:0\";; esac\n[[ $S == $P ]]; echo \"{i} dbl:$?\"\n[[ $S != $P ]]; echo \"{i} ne:$?\"\nargdump \"${{S#$P}}\" \"${{S##$P}}\" \"${{S%$P}}\" \"${{S%%$P}}\"\n"
        ));
    }
    // quoted segments are literals: the same pattern text, quoted, must match only itself (also as a prefix
    // followed by an unquoted `*`), whatever metacharacters or extglob groups it contains
    s.push_str("for S in \"$P\" \"${P}x\" \"$S0\"; do\ncase \"$S\" in \"$P\") echo \"q case:1\";; *) echo \"q case:0\";; esac\n[[ $S == \"$P\" ]]; echo \"q dbl:$?\"\n[[ $S == \"$P\"* ]]; echo \"q pre:$?\"\ncase \"$S\" in \"$P\"?) echo \"q one:1\";; *) echo \"q one:0\";; esac\nargdump \"${S#\"$P\"}\" \"${S%\"$P\"}\" \"${S/\"$P\"/X}\"\ndone\n");
    s.push_str("echo @END\n");
    s
}

impl Layer for Contexts {
    type Case = CtxCase;
    fn name(&self) -> String {
        "contexts".into()
    }
    fn render(&self, c: &CtxCase) -> String {
        format!("P={:?} extglob={} nocasematch={} subjects={:?}", c.p, c.extglob, c.nocase, c.subjects)
    }
    fn classes(&self, c: &CtxCase) -> Vec<String> {
        let mut v = vec![];
        if c.extglob && c.p.contains("!(") {
            v.push("extglob_negation".to_string());
        }
        if !c.extglob && ["?(", "*(", "+(", "@(", "!("].iter().any(|g| c.p.contains(g)) {
            v.push("dblbracket_extglob_off".to_string());
        }
        if c.nocase && (c.p.contains("[:upper:]") || c.p.contains("[:lower:]")) {
            v.push("nocase_with_case_class".to_string());
        }
        if c.extglob && (c.p.contains("()") || c.p.contains("(|") || c.p.contains("|)") || c.p.contains("||")) {
            v.push("extglob_empty_group".to_string());
        }
        v
    }
    fn shrink_candidates(&self, c: &CtxCase) -> Vec<CtxCase> {
        let mut out = vec![];
        for i in 0..c.subjects.len() {
            if c.subjects.len() > 1 {
                out.push(CtxCase { subjects: vec![c.subjects[i].clone()], ..c.clone() });
            }
        }
        let chars: Vec<char> = c.p.chars().collect();
        for i in 0..chars.len() {
            let mut p = chars.clone();
            p.remove(i);
            out.push(CtxCase { p: p.into_iter().collect(), ..c.clone() });
        }
        for (i, s) in c.subjects.iter().enumerate() {
            let sc: Vec<char> = s.chars().collect();
            for j in 0..sc.len() {
                let mut t = sc.clone();
                t.remove(j);
                let mut subjects = c.subjects.clone();
                subjects[i] = t.into_iter().collect();
                out.push(CtxCase { subjects, ..c.clone() });
            }
        }
        out
    }
    fn eval(&self, c: &CtxCase) -> Verdict {
        let mut env = vec![("P".to_string(), c.p.clone())];
        for (i, s) in c.subjects.iter().enumerate() {
            env.push((format!("S{i}"), s.clone()));
        }
        let spec = CaseSpec { script: script(c), env, timeout_ms: 10_000, ..Default::default() };
        let (mut outcome, pair) = judge(&spec, &DiffCfg::default());
        let o = Opts { extglob: c.extglob, nocase: c.nocase };
        // three-way rule: bash is believed only where the reference matcher agrees with it
        let bash_out = pair.bash.out_lossy();
        for (i, s) in c.subjects.iter().enumerate() {
            match globmodel::matches(&c.p, s, o) {
                Some(m) => {
                    let want = format!("{i} case:{}", if m { 1 } else { 0 });
                    if !bash_out.lines().any(|l| l == want) {
                        outcome = Outcome::Skip(format!("oracle disagreement (reference matcher vs bash) on subject {i}"));
                        break;
                    }
                }
                None => {
                    outcome = Outcome::Skip("pattern outside the model".into());
                    break;
                }
            }
        }
        let mut labels = vec![];
        if c.p.contains('[') {
            labels.push("bracket".to_string());
        }
        if c.subjects.iter().any(|s| s.contains('\n')) {
            labels.push("subject-with-newline".to_string());
        }
        if c.extglob && c.p.contains('(') {
            labels.push("extglob-group".to_string());
        }
        let matched = String::from_utf8_lossy(&pair.bash.stdout).contains("case:1");
        Verdict {
            outcome,
            labels,
            nontrivial: globmodel::has_meta(&c.p, o) && matched,
            sample: Some(pair_sample(&pair.bash, &pair.brush)),
            weight: (c.subjects.len() * 7) as u64,
        }
    }
}

const P_ATOMS: &[&str] = &[
    "a", "b", "c", "A", "é", ".", "-", "*", "*", "?", "?", "[ab]", "[!a]", "[a-c]", "[]a]", "[!]]", "[a-]", "[\\]]", "[\\b]", "[\\d\\w]", "[a\\-c]", "[[:alpha:]]", "[[:digit:][:upper:]]", "\\*", "\\?", "\\[", "\\\\", "\\a",
    "@(a|b)", "?(a)", "*(ab)", "+(a|bc)", "@(a*|?b)", "*(?)", "+([ab])", "@()",
];
const S_ATOMS: &[&str] = &["a", "b", "c", "A", "B", "é", ".", "-", "]", "[", "*", "?", "\\", "\n", " ", "0", "ab", "bc"];

fn ctx_cases() -> BoxedStrategy<CtxCase> {
    (
        proptest::collection::vec(proptest::sample::select(P_ATOMS.to_vec()), 0..=4),
        proptest::collection::vec(proptest::collection::vec(proptest::sample::select(S_ATOMS.to_vec()), 0..=5).prop_map(|v| v.concat()), 3..=6),
        any::<bool>(),
        proptest::bool::weighted(0.2),
    )
        .prop_map(|(p, mut subjects, extglob, nocase)| {
            let p = p.concat();
            // character classes are locale-dependent for non-ASCII subjects: keep those apart
            if p.contains("[:") {
                for s in subjects.iter_mut() {
                    *s = s.replace('é', "e");
                }
            }
            let stripped: String = p.chars().filter(|c| !"*?[]!()|@+\\^:".contains(*c)).take(6).collect();
            subjects.push(stripped.clone());
            subjects.push(format!("x\n{stripped}"));
            CtxCase { p, subjects, extglob, nocase }
        })
        .boxed()
}

// ---- pathname expansion ------------------------------------------------------------------------

#[derive(Clone, Debug, Serialize, Deserialize)]
pub struct GlobCase {
    pub files: Vec<String>,
    pub patterns: Vec<String>,
    pub opts: Vec<String>,
}

pub struct Pathname;

const NAMES: &[&str] = &[
    "a", "b", "ab", "A", ".a", ".ab", "a b", "d/", "d/a", "d/.a", "e/", "e/b", "[x]", "a.txt", "b.txt", "-n", ".d/", ".d/a", ".d/.a", ".d/.hc", "d/e/", "d/e/c", "d/e/.c", ".d/e/",
    ".d/e/.c", ".d/e/c", "e/.f/", "e/.f/.g", "e/.f/g",
];
/// path components that are joined with `/` into multi-component patterns: what one component
/// decides (leading dot, a literal, a class) must not leak into the next one
const G_COMPONENTS: &[&str] = &[
    "*", ".*", "?", "??", ".?", ".d*", ".[a-z]*", "d", ".d", "d*", "[!a]*", "[d.]*", "*a", "e", "e*", "?c", ".c*", "*c", "a*", ".", "\\.d", "'.d'", "\".\"*", ".f", ".f*", "?f", "[.]*", "*g",
    "?h*", ".h*", "@(.d|d)", "@(.|)d", "*(.)*", "**",
];
const G_PATTERNS: &[&str] = &[
    "*", ".*", "a*", "?", "??", "[ab]", "[!a]*", "*/", "*/*", "d/*", "d/.*", "*/.*", "[A-Z]*", "*.txt", "\\*", "a\\ b", "\"a b\"", "'*'", "*b", "a?", "nomatch*", "[x]", "\\[x\\]", "@(a|b)", "!(a)", "*(a|b)",
    "+(?)", "d*/a", "./*", "./.*", "*' '*", "-*", "[[:upper:]]", "[[:lower:]]*", "{a,b}*", "~nonexistentuser*",
];
const G_OPTS: &[&str] = &["dotglob", "nullglob", "nocaseglob", "extglob", "globstar"];

impl Layer for Pathname {
    type Case = GlobCase;
    fn name(&self) -> String {
        "pathname".into()
    }
    fn render(&self, c: &GlobCase) -> String {
        format!("files={:?} opts={:?} patterns={:?}", c.files, c.opts, c.patterns)
    }
    fn classes(&self, c: &GlobCase) -> Vec<String> {
        let mut v = vec![];
        if c.patterns.iter().any(|p| p.contains("!(")) {
            v.push("extglob_negation".to_string());
        }
        if c.opts.iter().any(|o| o == "nocaseglob") && c.patterns.iter().any(|p| p.contains("[:upper:]") || p.contains("[:lower:]")) {
            v.push("nocase_with_case_class".to_string());
        }
        if c.opts.iter().any(|o| o == "globstar") && c.patterns.iter().any(|p| p.split('/').any(|x| x == "**")) {
            v.push("globstar_doublestar_component".to_string());
        }
        if c.patterns.iter().any(|p| p.split('/').any(|x| ["@(", "*(", "+(", "?("].iter().any(|g| x.starts_with(g)) && (x.contains("(.") || x.contains("|.")))) {
            v.push("extglob_alternative_leading_dot".to_string());
        }
        v
    }
    fn shrink_candidates(&self, c: &GlobCase) -> Vec<GlobCase> {
        let mut out = vec![];
        for i in 0..c.patterns.len() {
            if c.patterns.len() > 1 {
                out.push(GlobCase { patterns: vec![c.patterns[i].clone()], ..c.clone() });
            }
        }
        for i in 0..c.opts.len() {
            let mut o = c.opts.clone();
            o.remove(i);
            out.push(GlobCase { opts: o, ..c.clone() });
        }
        for i in 0..c.files.len() {
            let mut f = c.files.clone();
            f.remove(i);
            out.push(GlobCase { files: f, ..c.clone() });
        }
        out
    }
    fn eval(&self, c: &GlobCase) -> Verdict {
        let mut s = String::new();
        for o in G_OPTS {
            s.push_str(&format!("shopt -{} {}\n", if c.opts.iter().any(|x| x == o) { "s" } else { "u" }, o));
        }
        s.push_str("cd t\n");
        for p in &c.patterns {
            s.push_str(&format!("argdump {p}\n"));
        }
        s.push_str("echo @END\n");
        let mut files: Vec<(String, String)> = vec![("t/".to_string(), String::new())];
        for f in &c.files {
            files.push((format!("t/{f}"), if f.ends_with('/') { String::new() } else { "x".to_string() }));
        }
        let spec = CaseSpec { script: s, files, timeout_ms: 10_000, ..Default::default() };
        let (outcome, pair) = judge(&spec, &DiffCfg::default());
        let mut labels: Vec<String> = c.opts.iter().map(|o| format!("opt:{o}")).collect();
        if c.files.iter().any(|f| f.starts_with('.') || f.contains("/.")) {
            labels.push("dotfiles-present".into());
        }
        if c.files.iter().any(|f| f.starts_with(".d/.") || f.starts_with(".d/e/.") || f.starts_with("e/.f/.")) {
            labels.push("dotfile-under-dot-directory".into());
        }
        if c.patterns.iter().any(|p| {
            let comps: Vec<&str> = p.split('/').filter(|x| !x.is_empty()).collect();
            comps.len() >= 2 && comps[..comps.len() - 1].iter().any(|x| x.starts_with('.') && x.contains(['*', '?', '['])) && !comps[comps.len() - 1].starts_with('.')
        }) {
            labels.push("dotted-glob-component-then-undotted".into());
        }
        Verdict { outcome, labels, nontrivial: !c.files.is_empty(), sample: Some(pair_sample(&pair.bash, &pair.brush)), weight: c.patterns.len() as u64 }
    }
}

fn glob_cases() -> BoxedStrategy<GlobCase> {
    (
        proptest::sample::subsequence(NAMES.to_vec(), 0..=NAMES.len()),
        proptest::collection::vec(proptest::sample::select(G_PATTERNS.to_vec()), 3..=6),
        proptest::collection::vec((proptest::collection::vec(proptest::sample::select(G_COMPONENTS.to_vec()), 2..=3), 0u8..6), 2..=5),
        proptest::sample::subsequence(G_OPTS.to_vec(), 0..=3),
    )
        .prop_map(|(files, patterns, composed, opts)| {
            // every ancestor directory of a chosen name exists (sorted: parents are created first)
            let mut files: Vec<String> = files.into_iter().map(String::from).collect();
            for f in files.clone() {
                let mut pre = String::new();
                let parts: Vec<&str> = f.trim_end_matches('/').split('/').collect();
                for part in &parts[..parts.len() - 1] {
                    pre.push_str(part);
                    pre.push('/');
                    if !files.contains(&pre) {
                        files.push(pre.clone());
                    }
                }
            }
            files.sort();
            files.dedup();
            let ext = opts.contains(&"extglob");
            let mut patterns: Vec<String> = patterns.into_iter().map(String::from).collect();
            for (comps, tail) in composed {
                let mut p = comps.join("/");
                if tail == 0 {
                    p.push('/');
                }
                patterns.push(p);
            }
            // with extglob off, `@(a|b)` as a bare word is a syntax error in bash: outside the domain
            let patterns: Vec<String> = patterns.into_iter().filter(|p| ext || !p.contains('(')).collect();
            GlobCase { files, patterns, opts: opts.into_iter().map(String::from).collect() }
        })
        .boxed()
}

pub fn run(run: &mut PropRun, ctx: &Ctx) {
    run.rule = "in process: all patterns over {a b * ? [ ] ! - \\} up to length 3 (quick)/5 (thorough) and all extglob patterns over that alphabet plus {( | ) @ +} \
                up to length 3/4, each against all strings over {a b ] - newline é} up to length 3/4, plus grammar-generated well-formed patterns (brackets with ranges, \
                classes, negation, leading ], escapes, nested extglob) against random and near-miss subjects; oracle = harness reference matcher, every mismatch \
                and a 1/97 sample confirmed against bash (model-vs-bash disagreement is skipped and counted, never a violation). Process level: the same \
                kind of patterns through case, [[ == ]], [[ != ]], ${s#p} ${s##p} ${s%p} ${s%%p}, and pathname expansion over generated directory trees with \
                dotglob/nullglob/nocaseglob/extglob/globstar, differential vs bash. non-trivial = pattern has a metacharacter and at least one subject matches; \
                evaluations counts (pattern, subject[, context]) decisions"
        .into();
    run.assumptions.push("bash 5.2.15 under LC_ALL=C.utf8 is the reference; collation-dependent ranges and equivalence classes are outside the generated domain".into());
    crate::inproc::run_inproc("C08", ctx, run);
    let n = ctx.tier.pick(1500, 30_000);
    run.add(explore(&Contexts, ctx_cases(), n, ctx));
    let n = ctx.tier.pick(1000, 20_000);
    run.add(explore(&Pathname, glob_cases(), n, ctx));
}

pub fn replay(layer: &str, case: &serde_json::Value) -> Result<(String, Verdict), String> {
    match layer {
        "contexts" => replay_case(&Contexts, case),
        "pathname" => replay_case(&Pathname, case),
        _ => crate::inproc::replay_inproc("C08", layer, case),
    }
}

#[allow(dead_code)]
fn _u(_: Outcome) {}

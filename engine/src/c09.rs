//! C09 — variable scope and attributes (differential vs bash on `declare -p` probes after
//! every action, plus a readonly invariant on brush's own trace).

use bvcommon::diff::bash_rejects;
use bvcommon::exec::{run_case, CaseSpec, ShellKind, Status};
use bvcommon::report::PropRun;
use bvcommon::runner::{check_floors, explore, replay_case, Ctx, Layer, Verdict};
use proptest::prelude::*;
use serde::{Deserialize, Serialize};
use serde_json::json;

#[derive(Clone, Debug, Serialize, Deserialize, PartialEq, Eq)]
pub enum Act {
    /// a raw one-line action
    Raw(String),
    /// call function g<i>
    Call(usize),
    /// NAME=val g<i>   (temporary assignment on a function call)
    TempCall(String, usize),
}

#[derive(Clone, Debug, Serialize, Deserialize)]
pub struct Case {
    pub funcs: Vec<Vec<Act>>,
    pub main: Vec<Act>,
}

const SCALARS: &[&str] = &["v", "w"];
const VALS: &[&str] = &["1", "abc", "AbC", "7+1", "x y", "", "010", "Zz"];

fn name() -> BoxedStrategy<String> {
    proptest::sample::select(SCALARS.to_vec()).prop_map(String::from).boxed()
}
fn val() -> BoxedStrategy<String> {
    proptest::sample::select(VALS.to_vec()).prop_map(|v| format!("'{v}'")).boxed()
}
/// attribute flags; -l and -u are never combined (bash then applies neither); `x` optional
fn flags(with_x: bool) -> BoxedStrategy<String> {
    // -i is rare: assignments to integer variables are a known finding (C07-integer-attribute-assignment)
    let sets: Vec<&'static str> = if with_x { vec!["", "", "-l ", "-u ", "-x ", "-lx ", "-ux ", "-l ", "-u ", "-x "] } else { vec!["", "", "-l ", "-u ", "-l ", "-u "] };
    prop_oneof![29 => proptest::sample::select(sets).prop_map(String::from), 1 => Just("-i ".to_string())].boxed()
}
/// names used with `local` / function-level `declare` (mostly v)
fn name_local() -> BoxedStrategy<String> {
    prop_oneof![59 => Just("v".to_string()), 1 => Just("w".to_string())].boxed()
}
/// names used with export / -x / temporary assignments / readonly (mostly w)
fn name_exp() -> BoxedStrategy<String> {
    prop_oneof![59 => Just("w".to_string()), 1 => Just("v".to_string())].boxed()
}

/// writer actions usable anywhere
fn writer(in_func: bool) -> BoxedStrategy<Act> {
    let raw = |s: BoxedStrategy<String>| s.prop_map(Act::Raw).boxed();
    let mut opts: Vec<(u32, BoxedStrategy<Act>)> = vec![
        (6, raw((name(), val()).prop_map(|(n, v)| format!("{n}={v}")).boxed())),
        (3, raw((name(), val()).prop_map(|(n, v)| format!("{n}+={v}")).boxed())),
        (3, raw((0usize..4, val()).prop_map(|(i, v)| format!("a[{i}]={v}")).boxed())),
        (2, raw(val().prop_map(|v| format!("a+=({v})")).boxed())),
        (2, raw((val(), val()).prop_map(|(x, y)| format!("a=({x} {y})")).boxed())),
        (2, raw((proptest::sample::select(vec!["j", "k"]), val()).prop_map(|(k, v)| format!("m[{k}]={v}")).boxed())),
        (4, raw((flags(!in_func), if in_func { name_local() } else { name() }, proptest::option::of(val())).prop_map(|(f, n, v)| format!("declare {f}{n}{}", v.map(|v| format!("={v}")).unwrap_or_default())).boxed())),
        (2, raw((proptest::sample::select(vec!["+l", "+u", "-l", "-u", "+l", "-u"]), if in_func { name_local() } else { name() }).prop_map(|(f, n)| format!("declare {f} {n}")).boxed())),
        (1, raw((proptest::sample::select(vec!["+x", "-x"]), name_exp()).prop_map(|(f, n)| format!("declare {f} {n}")).boxed())),
        (3, raw((name_exp(), proptest::option::weighted(0.9, val())).prop_map(|(n, v)| format!("export {n}{}", v.map(|v| format!("={v}")).unwrap_or_default())).boxed())),
        (1, raw(name_exp().prop_map(|n| format!("export -n {n}")).boxed())),
        (3, raw((proptest::sample::select(vec!["", "-v "]), name()).prop_map(|(f, n)| format!("unset {f}{n}")).boxed())),
        (1, raw((0usize..3).prop_map(|i| format!("unset 'a[{i}]'")).boxed())),
        (1, raw(Just("unset a".to_string()).boxed())),
        (2, raw(name().prop_map(|n| format!("for {n} in p q; do :; done")).boxed())),
        (2, raw(name().prop_map(|n| format!("read {n} <<< 'r1 r2'")).boxed())),
        (1, raw(Just("read -a a <<< '1 2 3'".to_string()).boxed())),
        (1, raw(proptest::bool::weighted(0.1).prop_map(|b| if b { "read 'a[1]' <<< rd".to_string() } else { "read w <<< 'r3'".to_string() }).boxed())),
        (2, raw(name().prop_map(|n| format!("printf -v {n} '%s' pv")).boxed())),
        (1, raw((0usize..3).prop_map(|i| format!("printf -v 'a[{i}]' '%s' pa")).boxed())),
        (2, raw(name().prop_map(|n| format!("(( {n} = 4 ))")).boxed())),
        (1, raw(name().prop_map(|n| format!("(( {n} = 4 + 1 ))")).boxed())),
        (1, raw((0usize..3).prop_map(|i| format!("(( a[{i}] = 9 ))")).boxed())),
        (2, raw(name().prop_map(|n| format!(": ${{{n}:=dv}}")).boxed())),
        (1, raw((0usize..3).prop_map(|i| format!(": ${{a[{i}]:=da}}")).boxed())),
        (1, raw(name().prop_map(|n| format!("OPTIND=1; getopts ab {n} -a")).boxed())),
        (1, raw(Just("mapfile -t a <<< $'l1\\nl2'".to_string()).boxed())),
        (2, raw((name_exp(), val()).prop_map(|(n, v)| format!("{n}={v} probe")).boxed())),
        (2, raw((name_exp(), val()).prop_map(|(n, v)| format!("{n}={v} childenv v w")).boxed())),
        (2, raw((name_exp(), val()).prop_map(|(n, v)| format!("{n}={v} eval 'probe'")).boxed())),
        (2, raw(Just("childenv v w".to_string()).boxed())),
        (1, raw((name_exp(), val()).prop_map(|(n, v)| format!("{n}={v} :")).boxed())),
    ];
    if in_func {
        opts.push((8, raw((flags(false), name_local(), proptest::option::of(val())).prop_map(|(f, n, v)| format!("local {f}{n}{}", v.map(|v| format!("={v}")).unwrap_or_default())).boxed())));
        opts.push((1, raw(Just("local a=(l1 l2)".to_string()).boxed())));
        opts.push((1, raw((name(), val()).prop_map(|(n, v)| format!("declare -g {n}={v}")).boxed())));
    }
    proptest::strategy::Union::new_weighted(opts).boxed()
}

fn act(in_func: bool, callable: std::ops::Range<usize>) -> BoxedStrategy<Act> {
    if callable.is_empty() {
        return writer(in_func);
    }
    let c2 = callable.clone();
    prop_oneof![
        8 => writer(in_func),
        2 => callable.prop_map(Act::Call),
        1 => (name_exp(), val(), c2).prop_map(|(n, v, i)| Act::TempCall(format!("{n}={v}"), i)),
    ]
    .boxed()
}

pub fn cases(max: usize) -> BoxedStrategy<Case> {
    let nf = 3usize;
    let funcs: Vec<BoxedStrategy<Vec<Act>>> = (0..nf).map(|i| proptest::collection::vec(act(true, (i + 1)..nf), 2..=5).boxed()).collect();
    // optional tail: make one name readonly, then attack it with top-level writers only (what a failed
    // assignment *inside a function* unwinds differs between shells and is not what the property is about)
    let tail = proptest::option::weighted(
        0.4,
        (
            prop_oneof![
                3 => (name_exp(), proptest::option::of(val())).prop_map(|(n, v)| format!("readonly {n}{}", v.map(|v| format!("={v}")).unwrap_or_default())),
                2 => Just("readonly a".to_string()),
                1 => Just("readonly m".to_string()),
                1 => (name_exp(), val()).prop_map(|(n, v)| format!("declare -r {n}={v}")),
            ],
            proptest::collection::vec(writer(false), 3..=7),
        ),
    );
    (funcs, proptest::collection::vec(act(false, 0..nf), 3..=max), tail)
        .prop_map(|(funcs, mut main, tail)| {
            if let Some((ro, attacks)) = tail {
                main.push(Act::Raw(ro));
                main.extend(attacks);
            }
            Case { funcs, main }
        })
        .boxed()
}

const PROLOGUE: &str = "probe() { declare -p v w a m 2>&1; }\nrd0() { probe; childenv v w; }\nrd1() { rd0; }\nrd2() { ( probe ); childenv v w | cat; }\nrd3() { unset w; probe; childenv v w; }\nrd4() { unset w; w=n4; probe; }\nrd5() { unset v; probe; v=n5; probe; }\nv=g0; declare -a a=(a0 a1); declare -A m=([k]=mk)\n";

fn render_act(a: &Act, out: &mut String) {
    match a {
        Act::Raw(s) => out.push_str(s),
        Act::Call(i) => out.push_str(&format!("g{i}")),
        // temporary assignments go on reader functions only: what a callee that *writes* a temporarily
        // assigned name leaves behind differs between bash versions and modes
        // rd3..rd5 unset the (possibly temporary) name first: the unset must uncover what the temporary
        // assignment shadowed, and a later assignment must land there (added with seeded change C09-3)
        Act::TempCall(asg, i) => out.push_str(&format!("{asg} rd{}", (i + asg.len()) % 6)),
    }
}

pub fn script(c: &Case) -> String {
    let mut s = String::from(PROLOGUE);
    for (i, f) in c.funcs.iter().enumerate() {
        s.push_str(&format!("g{i}() {{\n"));
        for (k, a) in f.iter().enumerate() {
            s.push_str("  ");
            render_act(a, &mut s);
            s.push_str(&format!("; echo \"g{i}.{k} st:$(( $? != 0 ))\"; probe\n"));
        }
        s.push_str("}\n");
    }
    for (k, a) in c.main.iter().enumerate() {
        render_act(a, &mut s);
        s.push_str(&format!("\necho \"main.{k} st:$(( $? != 0 ))\"\nprobe\n"));
    }
    s.push_str("echo @END\n");
    s
}

/// normalise `declare -p` output: error lines keep only "<name>: not found"; associative arrays
/// get their entries sorted
pub fn normalise(out: &str) -> String {
    let mut res = String::new();
    for line in out.lines() {
        if let Some(p) = line.find(": not found") {
            let head = &line[..p];
            let name = head.rsplit([' ', ':']).next().unwrap_or("");
            res.push_str(&format!("{name}: not found\n"));
            continue;
        }
        // attribute letters in a canonical order (the two shells list them differently)
        let line_owned;
        let line = if line.starts_with("declare -") {
            let mut parts: Vec<&str> = line.splitn(3, ' ').collect();
            let mut letters: Vec<char> = parts[1][1..].chars().collect();
            letters.sort();
            let f = format!("-{}", letters.into_iter().collect::<String>());
            parts[1] = &f;
            line_owned = parts.join(" ");
            line_owned.as_str()
        } else {
            line
        };
        if line.starts_with("declare -") && line.split(' ').nth(1).map(|f| f.contains('A')).unwrap_or(false) {
            if let (Some(l), Some(r)) = (line.find("=("), line.rfind(')')) {
                let body = &line[l + 2..r];
                // entries look like [k]="v" separated by spaces; values here never contain `" [`
                let mut ents: Vec<String> = vec![];
                let mut cur = String::new();
                for tok in body.split(' ') {
                    if tok.starts_with('[') && !cur.is_empty() {
                        ents.push(cur.trim().to_string());
                        cur = String::new();
                    }
                    cur.push_str(tok);
                    cur.push(' ');
                }
                if !cur.trim().is_empty() {
                    ents.push(cur.trim().to_string());
                }
                ents.sort();
                res.push_str(&format!("{}=({} )\n", &line[..l], ents.join(" ")));
                continue;
            }
        }
        res.push_str(line);
        res.push('\n');
    }
    res
}

pub struct Diff;

pub fn classes_of(c: &Case) -> Vec<String> {
    let mut v = vec![];
    let all: Vec<&Act> = c.main.iter().chain(c.funcs.iter().flatten()).collect();
    let text: Vec<String> = all
        .iter()
        .map(|a| {
            let mut s = String::new();
            render_act(a, &mut s);
            s
        })
        .collect();
    // assignments to integer-attribute variables are not evaluated arithmetically (C07 known finding)
    // names that are exported / temporarily assigned / readonly somewhere, and names declared local somewhere
    let mut exp: std::collections::BTreeSet<String> = Default::default();
    let mut ro: std::collections::BTreeSet<String> = Default::default();
    let mut loc: std::collections::BTreeSet<String> = Default::default();
    for (a, t) in all.iter().zip(text.iter()) {
        let word = |t: &str, k: usize| t.split(' ').nth(k).unwrap_or("").split('=').next().unwrap_or("").to_string();
        if let Act::TempCall(asg, _) = a {
            exp.insert(asg.split('=').next().unwrap_or("").to_string());
        }
        if t.starts_with("export ") && !t.starts_with("export -n") {
            exp.insert(word(t, 1));
        }
        if t.starts_with("declare -") && t.split(' ').nth(1).map(|f| f.contains('x') && f.starts_with('-')).unwrap_or(false) {
            exp.insert(word(t, 2));
        }
        if (t.starts_with("v=") || t.starts_with("w=")) && t.contains("' ") {
            exp.insert(t[..1].to_string());
        }
        if t.starts_with("readonly ") {
            ro.insert(word(t, 1));
        }
        if t.starts_with("declare -r ") {
            ro.insert(word(t, 2));
        }
        if t.starts_with("local ") {
            loc.insert(t.split(' ').filter(|x| !x.starts_with('-')).nth(1).unwrap_or("").split('=').next().unwrap_or("").to_string());
        }
    }
    // `declare` inside a function body also creates a local
    for f in &c.funcs {
        for a in f {
            let mut t = String::new();
            render_act(a, &mut t);
            if t.starts_with("declare ") && !t.starts_with("declare -g") {
                loc.insert(t.split(' ').filter(|x| !x.starts_with('-') && !x.starts_with('+')).nth(1).unwrap_or("").split('=').next().unwrap_or("").to_string());
            }
        }
    }
    if loc.iter().any(|n| exp.contains(n)) {
        v.push("local_shadows_exported_or_temporary".to_string());
    }
    // `declare -g NAME` while some function has a local NAME (the local may be live in a caller)
    for t in &text {
        if let Some(rest) = t.strip_prefix("declare -g ") {
            let n = rest.split('=').next().unwrap_or("");
            if loc.contains(n) {
                v.push("declare_g_with_shadowing_local".to_string());
            }
        }
    }
    // `export NAME=value` when NAME is readonly: bash rejects the value but still sets the export attribute
    if text.iter().any(|t| t.starts_with("export ") && t.contains('=') && ro.contains(t["export ".len()..].split('=').next().unwrap_or(""))) {
        v.push("export_with_value_on_readonly".to_string());
    }
    if loc.iter().any(|n| ro.contains(n)) {
        v.push("local_of_readonly_global".to_string());
    }
    if text.iter().any(|t| t.starts_with("export ") && !t.contains('=') && !t.starts_with("export -n")) {
        v.push("export_without_value".to_string());
    }
    if text.iter().any(|t| t.starts_with("read 'a[")) {
        v.push("read_into_array_element".to_string());
    }
    if text.iter().any(|t| t.contains("declare -i") || t.contains("-i ") || t.contains("local -i") || t.contains("-ix") || t.contains("-il") || t.contains("-iu") || t.contains("-li") || t.contains("-ui") || t.contains("-xi")) {
        v.push("integer_attribute_assignment".to_string());
    }
    v
}

fn facts(c: &Case) -> (Vec<String>, bool) {
    let mut labels = vec![];
    let render = |a: &Act| {
        let mut s = String::new();
        render_act(a, &mut s);
        s
    };
    let all: Vec<String> = c.main.iter().chain(c.funcs.iter().flatten()).map(render).collect();
    let has = |needle: &str| all.iter().any(|t| t.contains(needle));
    let calls = c.main.iter().any(|a| matches!(a, Act::Call(_) | Act::TempCall(..)));
    let locals = c.funcs.iter().flatten().any(|a| render(a).starts_with("local"));
    if calls && locals {
        labels.push("call-with-local".to_string());
    }
    if c.main.iter().chain(c.funcs.iter().flatten()).any(|a| matches!(a, Act::TempCall(..))) {
        labels.push("temp-assignment-on-function".into());
    }
    if has("childenv") {
        labels.push("child-environment".into());
    }
    if has("readonly") {
        labels.push("readonly".into());
    }
    for (needle, l) in [("read ", "writer:read"), ("printf -v", "writer:printf-v"), ("((", "writer:arith"), (":=", "writer:assign-default"), ("getopts", "writer:getopts"), ("mapfile", "writer:mapfile"), ("for ", "writer:for"), ("unset", "unset"), ("export", "export"), ("declare -g", "declare-g")] {
        if has(needle) {
            labels.push(l.to_string());
        }
    }
    let nontrivial = (calls && locals) || labels.iter().any(|l| l == "temp-assignment-on-function") || has("declare ") || has("readonly");
    (labels, nontrivial)
}

/// readonly invariant on one shell's normalised trace (top-level probes only): once a top-level
/// `readonly NAME` action reported success, NAME's `declare` line never changes again at top level
fn readonly_invariant(c: &Case, norm: &str) -> Option<String> {
    // split the trace into (marker, probe lines)
    let mut blocks: Vec<(String, Vec<String>)> = vec![];
    for line in norm.lines() {
        if line.starts_with("main.") || line.starts_with('g') && line.contains(" st:") {
            blocks.push((line.to_string(), vec![]));
        } else if let Some(b) = blocks.last_mut() {
            b.1.push(line.to_string());
        }
    }
    let mut frozen: std::collections::BTreeMap<String, String> = Default::default();
    for (k, a) in c.main.iter().enumerate() {
        let Some((marker, lines)) = blocks.iter().find(|(m, _)| m.starts_with(&format!("main.{k} st:"))) else { continue };
        let find = |n: &str| lines.iter().find(|l| l.starts_with("declare ") && l.split([' ', '=']).nth(2) == Some(n)).cloned();
        for (n, line) in frozen.iter() {
            match find(n) {
                Some(l) if &l == line => {}
                other => return Some(format!("readonly {n} changed after `{marker}`: was `{line}`, now `{}`", other.unwrap_or_else(|| "<gone>".into()))),
            }
        }
        if let Act::Raw(t) = a {
            if (t.starts_with("readonly ") || t.starts_with("declare -r ")) && marker.ends_with("st:0") {
                let n = t.rsplit(' ').next().unwrap_or("").split('=').next().unwrap_or("").to_string();
                if let Some(l) = find(&n) {
                    frozen.insert(n, l);
                }
            }
        }
    }
    None
}

impl Layer for Diff {
    type Case = Case;
    fn name(&self) -> String {
        "diff".into()
    }
    fn render(&self, c: &Case) -> String {
        script(c)[PROLOGUE.len()..].to_string()
    }
    fn classes(&self, c: &Case) -> Vec<String> {
        classes_of(c)
    }
    fn shrink_candidates(&self, c: &Case) -> Vec<Case> {
        let mut out = vec![];
        for i in 0..c.main.len() {
            if c.main.len() > 1 {
                let mut m = c.main.clone();
                m.remove(i);
                out.push(Case { main: m, ..c.clone() });
            }
        }
        for (fi, f) in c.funcs.iter().enumerate() {
            for i in 0..f.len() {
                if f.len() > 1 {
                    let mut nf = c.funcs.clone();
                    nf[fi].remove(i);
                    out.push(Case { funcs: nf, ..c.clone() });
                }
            }
        }
        out
    }
    fn eval(&self, c: &Case) -> Verdict {
        let spec = CaseSpec { script: script(c), timeout_ms: 15_000, ..Default::default() };
        let bash = run_case(ShellKind::Bash, &spec);
        let (labels, nontrivial) = facts(c);
        if bash_rejects(&bash) {
            return Verdict::skip("bash: syntax error").with_labels(labels);
        }
        if bash.status == Status::Timeout {
            return Verdict::inconclusive("bash timed out").with_labels(labels);
        }
        let brush = run_case(ShellKind::Brush, &spec);
        if brush.status == Status::Timeout {
            return Verdict::inconclusive("brush timed out").with_labels(labels);
        }
        if brush.panicked() {
            return Verdict::fail(format!("brush crashed: {}", brush.err_lossy())).with_labels(labels);
        }
        let nb = normalise(&bash.out_lossy());
        let nr = normalise(&brush.out_lossy());
        let sample = json!({"bash": bvcommon::exec::trunc(&nb, 500), "brush": bvcommon::exec::trunc(&nr, 500)});
        if let Some(v) = readonly_invariant(c, &nb) {
            return Verdict::skip(format!("oracle disagreement: bash itself breaks the readonly invariant ({v})")).with_labels(labels);
        }
        if let Some(v) = readonly_invariant(c, &nr) {
            return Verdict::fail(format!("readonly invariant: {v}")).with_labels(labels);
        }
        if nb != nr {
            let la: Vec<&str> = nb.lines().collect();
            let lb: Vec<&str> = nr.lines().collect();
            let n = la.iter().zip(lb.iter()).take_while(|(x, y)| x == y).count();
            let marker = la[..n.min(la.len())].iter().rev().find(|l| l.contains(" st:")).copied().unwrap_or("<start>");
            return Verdict::fail(format!(
                "first difference after `{marker}`: bash `{}` vs brush `{}`",
                la.get(n).copied().unwrap_or("<eof>"),
                lb.get(n).copied().unwrap_or("<eof>")
            ))
            .with_labels(labels)
            .with_sample(sample);
        }
        let mut v = Verdict::pass(nontrivial).with_labels(labels).with_sample(sample);
        v.weight = (c.main.len() + c.funcs.iter().map(|f| f.len()).sum::<usize>()) as u64;
        v
    }
}

pub fn run(run: &mut PropRun, ctx: &Ctx) {
    run.rule = "programs = 4-14 (quick) / 4-20 (thorough) top-level actions plus three functions (g_i may call g_j, j>i; depth <= 3) over names v w (scalars), a (indexed), m (associative): \
                plain / += / element / compound assignment, declare and local with subsets of -i -l -u -x and +attr, declare -g, export [-n], readonly, unset [-v] / unset 'a[i]', \
                for, read / read -a / read 'a[i]', printf -v, (( )), ${n:=}, getopts, mapfile, function calls, temporary-assignment prefixes on builtins, eval, functions and an external \
                command (childenv prints the variables a child process receives); after every action the status (zero/non-zero) and `declare -p v w a m` are printed; differential vs \
                bash 5.2.15 on the normalised trace (associative entries sorted, diagnostics reduced to `name: not found`); independently, once a top-level `readonly NAME` succeeded, \
                NAME's declare line must never change at top level; non-trivial = a function call with a shadowing local, a temporary assignment on a function, or an attribute declaration; \
                evaluations counts probed actions"
        .into();
    run.assumptions.push("bash 5.2.15 reference; values are simple words so that quoting style of declare -p is not at stake (C13 covers quoting)".into());
    let n = ctx.tier.pick(6000, 80_000);
    let rep = explore(&Diff, cases(ctx.tier.pick(14, 20)), n, ctx);
    let floors: Vec<(&str, u64)> = vec![("call-with-local", n as u64 / 10), ("temp-assignment-on-function", n as u64 / 20), ("child-environment", n as u64 / 10), ("readonly", n as u64 / 20), ("writer:read", n as u64 / 20), ("writer:printf-v", n as u64 / 20), ("writer:arith", n as u64 / 20)];
    if rep.failures.is_empty() {
        if let Some(m) = check_floors(&rep, &floors) {
            run.fatal = Some(format!("generator degenerate: {m}"));
        }
    }
    run.add(rep);
}

pub fn replay(layer: &str, case: &serde_json::Value) -> Result<(String, Verdict), String> {
    match layer {
        "diff" => replay_case(&Diff, case),
        _ => Err(format!("C09: unknown layer {layer}")),
    }
}

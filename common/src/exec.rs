//! Sandboxed execution of one shell script under brush or bash.
//!
//! Every child runs with a cleared environment, a fresh scratch directory as cwd, its own
//! process group, resource limits and a hard wall-clock limit (a global watchdog thread kills
//! the whole process group when the deadline passes).  Both shells get the script under the
//! same relative name `./case.sh` and identical argument vectors.

use serde::{Deserialize, Serialize};
use std::collections::BTreeMap;
use std::io::{Read, Write};
use std::os::unix::process::{CommandExt, ExitStatusExt};
use std::path::{Path, PathBuf};
use std::process::{Command, Stdio};
use std::sync::atomic::{AtomicBool, AtomicU64, Ordering};
use std::sync::{Arc, Mutex, OnceLock};
use std::time::{Duration, Instant};

#[derive(Clone, Copy, Debug, PartialEq, Eq, Serialize, Deserialize, Hash)]
pub enum ShellKind {
    Brush,
    Bash,
}

#[derive(Clone, Debug, PartialEq, Eq, Serialize, Deserialize, Hash, Default)]
pub enum Delivery {
    /// `shell ./case.sh args…`
    #[default]
    File,
    /// `shell -c "$text" ./case.sh args…`
    DashC,
    /// `shell -s args… < case.sh`
    Stdin,
    /// `shell -c '. ./case.sh' ./case.sh args…`  (args become $1… of the sourcing shell)
    Source,
    /// `shell -c 'eval "$(cat ./case.sh)"'`-like: text passed via env var BV_TEXT and eval'ed
    Eval,
}

#[derive(Clone, Debug, Serialize, Deserialize, Default, PartialEq, Eq, Hash)]
pub struct CaseSpec {
    pub script: String,
    #[serde(default)]
    pub delivery: Delivery,
    /// positional arguments of the script
    #[serde(default)]
    pub args: Vec<String>,
    /// extra environment variables (name, value)
    #[serde(default)]
    pub env: Vec<(String, String)>,
    /// files created in the scratch directory before the run (relative path, content);
    /// a path ending in '/' creates a directory
    #[serde(default)]
    pub files: Vec<(String, String)>,
    /// bytes given on stdin (None = /dev/null); ignored for Delivery::Stdin
    #[serde(default)]
    pub stdin: Option<String>,
    /// extra command-line flags for the shell (e.g. "-e", "-u")
    #[serde(default)]
    pub flags: Vec<String>,
    /// "C" or "C.utf8" (default)
    #[serde(default)]
    pub c_locale: bool,
    /// wall clock limit in ms (0 = default 10 s)
    #[serde(default)]
    pub timeout_ms: u64,
    /// collect files of the scratch directory afterwards
    #[serde(default)]
    pub collect_files: bool,
    /// cpu set for taskset-like affinity (empty = all)
    #[serde(default)]
    pub cpus: Vec<usize>,
    /// give stdin (the script for Delivery::Stdin, else `stdin`) through a pipe instead of a file
    #[serde(default)]
    pub stdin_pipe: bool,
    /// run the shell as uid/gid 65534 (scripts of unknown content: nothing outside the scratch
    /// directory is writable for them)
    #[serde(default)]
    pub unprivileged: bool,
}

#[derive(Clone, Debug, Serialize, Deserialize, PartialEq, Eq)]
pub enum Status {
    Exit(i32),
    Signal(i32),
    Timeout,
}

impl Status {
    pub fn is_crash(&self) -> bool {
        match self {
            Status::Exit(c) => *c == 101 || *c == 134,
            Status::Signal(s) => {
                matches!(*s, libc::SIGSEGV | libc::SIGABRT | libc::SIGBUS | libc::SIGILL | libc::SIGFPE)
            }
            Status::Timeout => false,
        }
    }
    pub fn zero(&self) -> bool {
        matches!(self, Status::Exit(0))
    }
}

#[derive(Clone, Debug, Serialize, Deserialize)]
pub struct Obs {
    pub status: Status,
    pub stdout: Vec<u8>,
    pub stderr: Vec<u8>,
    pub files: BTreeMap<String, Vec<u8>>,
    pub wall_ms: u64,
}

impl Obs {
    pub fn out_lossy(&self) -> String {
        String::from_utf8_lossy(&self.stdout).into_owned()
    }
    pub fn err_lossy(&self) -> String {
        String::from_utf8_lossy(&self.stderr).into_owned()
    }
    pub fn panicked(&self) -> bool {
        let e = self.err_lossy();
        e.contains("panicked at") || e.contains("has overflowed its stack") || self.status.is_crash()
    }
    pub fn summary(&self) -> serde_json::Value {
        serde_json::json!({
            "status": format!("{:?}", self.status),
            "stdout": trunc(&self.out_lossy(), 600),
            "stderr": trunc(&self.err_lossy(), 300),
        })
    }
}

pub fn trunc(s: &str, n: usize) -> String {
    if s.len() <= n {
        s.to_string()
    } else {
        let mut e = n;
        while !s.is_char_boundary(e) {
            e -= 1;
        }
        format!("{}…[{} bytes]", &s[..e], s.len())
    }
}

// ---------------------------------------------------------------------------------------------
// paths
// ---------------------------------------------------------------------------------------------

pub fn verif_root() -> PathBuf {
    std::env::var_os("BVERIF_ROOT").map(PathBuf::from).unwrap_or_else(|| PathBuf::from("/verif"))
}

pub fn brush_bin() -> PathBuf {
    std::env::var_os("BVERIF_BRUSH")
        .map(PathBuf::from)
        .unwrap_or_else(|| verif_root().join("target/repo/debug/brush"))
}

pub fn bash_bin() -> PathBuf {
    PathBuf::from("/usr/bin/bash")
}

pub fn helpers_dir() -> PathBuf {
    std::env::var_os("BVERIF_HELPERS")
        .map(PathBuf::from)
        .unwrap_or_else(|| verif_root().join("target/harness/helpers-bin"))
}

fn scratch_base() -> &'static PathBuf {
    static BASE: OnceLock<PathBuf> = OnceLock::new();
    BASE.get_or_init(|| {
        let p = PathBuf::from(format!("/dev/shm/bverif.{}", std::process::id()));
        let _ = std::fs::create_dir_all(&p);
        p
    })
}

pub fn cleanup_scratch() {
    let _ = std::fs::remove_dir_all(scratch_base());
}

static COUNTER: AtomicU64 = AtomicU64::new(0);

pub struct Scratch {
    pub dir: PathBuf,
}

impl Scratch {
    pub fn new() -> Scratch {
        let n = COUNTER.fetch_add(1, Ordering::Relaxed);
        // fixed-length directory names so that $PWD has the same length in both shells
        let dir = scratch_base().join(format!("w{:09}", n));
        let _ = std::fs::remove_dir_all(&dir);
        std::fs::create_dir_all(dir.join("home")).expect("scratch");
        std::fs::create_dir_all(dir.join("tmp")).expect("scratch");
        std::fs::create_dir_all(dir.join("d")).expect("scratch");
        Scratch { dir }
    }
    /// the directory the shell runs in
    pub fn cwd(&self) -> PathBuf {
        self.dir.join("d")
    }
}

impl Drop for Scratch {
    fn drop(&mut self) {
        if std::fs::remove_dir_all(&self.dir).is_err() {
            // make everything removable first (a case may have chmod'ed something)
            let _ = Command::new("/bin/chmod").arg("-R").arg("u+rwx").arg(&self.dir).stderr(Stdio::null()).status();
            let _ = std::fs::remove_dir_all(&self.dir);
        }
    }
}

// ---------------------------------------------------------------------------------------------
// watchdog
// ---------------------------------------------------------------------------------------------

struct Watched {
    deadline: Instant,
    flag: Arc<AtomicBool>,
}

fn watch_table() -> &'static Mutex<BTreeMap<i32, Watched>> {
    static T: OnceLock<Mutex<BTreeMap<i32, Watched>>> = OnceLock::new();
    T.get_or_init(|| {
        std::thread::Builder::new()
            .name("watchdog".into())
            .spawn(|| loop {
                std::thread::sleep(Duration::from_millis(20));
                let now = Instant::now();
                let mut t = watch_table().lock().unwrap();
                let expired: Vec<i32> = t.iter().filter(|(_, w)| w.deadline <= now).map(|(p, _)| *p).collect();
                for pid in expired {
                    if let Some(w) = t.remove(&pid) {
                        w.flag.store(true, Ordering::SeqCst);
                        unsafe {
                            libc::kill(-pid, libc::SIGKILL);
                            libc::kill(pid, libc::SIGKILL);
                        }
                    }
                }
            })
            .expect("watchdog");
        Mutex::new(BTreeMap::new())
    })
}

// ---------------------------------------------------------------------------------------------
// running
// ---------------------------------------------------------------------------------------------

fn write_files(cwd: &Path, files: &[(String, String)]) {
    for (name, content) in files {
        let p = cwd.join(name);
        if name.ends_with('/') {
            let _ = std::fs::create_dir_all(&p);
            continue;
        }
        if let Some(parent) = p.parent() {
            let _ = std::fs::create_dir_all(parent);
        }
        let _ = std::fs::write(&p, content.as_bytes());
    }
}

fn collect(cwd: &Path, rel: &Path, out: &mut BTreeMap<String, Vec<u8>>) {
    let Ok(rd) = std::fs::read_dir(cwd.join(rel)) else { return };
    for e in rd.flatten() {
        let name = rel.join(e.file_name());
        let Ok(ft) = e.file_type() else { continue };
        let key = name.to_string_lossy().into_owned();
        if key == "case.sh" || key == ".bv_stdout" || key == ".bv_stderr" {
            continue;
        }
        if ft.is_dir() {
            out.insert(format!("{key}/"), vec![]);
            collect(cwd, &name, out);
        } else if ft.is_file() {
            let mut buf = Vec::new();
            if let Ok(f) = std::fs::File::open(cwd.join(&name)) {
                let _ = f.take(1 << 20).read_to_end(&mut buf);
            }
            out.insert(key, buf);
        } else {
            out.insert(key, b"<special>".to_vec());
        }
    }
}

/// Extra knobs that are not part of the (serialised) case.
#[derive(Clone, Debug, Default)]
pub struct RunOpts {
    /// environment additions for brush only (e.g. BRUSH_VERIF_PAUSES)
    pub brush_env: Vec<(String, String)>,
    /// keep the scratch dir (returned path) — used by checks that inspect it themselves
    pub max_out: usize,
}

pub fn run_case(kind: ShellKind, spec: &CaseSpec) -> Obs {
    run_case_opts(kind, spec, &RunOpts::default())
}

pub fn run_case_opts(kind: ShellKind, spec: &CaseSpec, opts: &RunOpts) -> Obs {
    let scratch = Scratch::new();
    run_in_scratch(kind, spec, opts, &scratch)
}

pub fn run_in_scratch(kind: ShellKind, spec: &CaseSpec, opts: &RunOpts, scratch: &Scratch) -> Obs {
    let cwd = scratch.cwd();
    write_files(&cwd, &spec.files);
    let script_path = cwd.join("case.sh");
    std::fs::write(&script_path, spec.script.as_bytes()).expect("write script");

    let bin = match kind {
        ShellKind::Brush => brush_bin(),
        ShellKind::Bash => bash_bin(),
    };
    let mut cmd = Command::new(&bin);
    cmd.env_clear();
    let path = format!("{}:/usr/bin:/bin", helpers_dir().display());
    cmd.env("PATH", &path);
    cmd.env("HOME", scratch.dir.join("home"));
    cmd.env("TMPDIR", scratch.dir.join("tmp"));
    cmd.env("LC_ALL", if spec.c_locale { "C" } else { "C.utf8" });
    cmd.env("TZ", "UTC");
    for (k, v) in &spec.env {
        cmd.env(k, v);
    }
    if kind == ShellKind::Brush {
        for (k, v) in &opts.brush_env {
            cmd.env(k, v);
        }
    }
    match kind {
        ShellKind::Brush => {
            cmd.args(["--norc", "--noprofile", "--no-config"]);
        }
        ShellKind::Bash => {
            cmd.args(["--norc", "--noprofile"]);
        }
    }
    for f in &spec.flags {
        cmd.arg(f);
    }
    let mut stdin_file: Option<std::fs::File> = None;
    match spec.delivery {
        Delivery::File => {
            cmd.arg("./case.sh");
            cmd.args(&spec.args);
        }
        Delivery::DashC => {
            cmd.arg("-c").arg(&spec.script).arg("./case.sh");
            cmd.args(&spec.args);
        }
        Delivery::Stdin => {
            cmd.arg("-s");
            cmd.args(&spec.args);
            stdin_file = Some(std::fs::File::open(&script_path).expect("open script"));
        }
        Delivery::Source => {
            cmd.arg("-c").arg(". ./case.sh").arg("./case.sh");
            cmd.args(&spec.args);
        }
        Delivery::Eval => {
            cmd.env("BV_TEXT", &spec.script);
            cmd.arg("-c").arg("eval \"$BV_TEXT\"").arg("./case.sh");
            cmd.args(&spec.args);
        }
    }
    if stdin_file.is_none() {
        if let Some(s) = &spec.stdin {
            let p = scratch.dir.join("stdin");
            std::fs::write(&p, s.as_bytes()).expect("stdin");
            stdin_file = Some(std::fs::File::open(&p).expect("stdin"));
        }
    }
    let mut pipe_payload: Option<Vec<u8>> = None;
    match stdin_file {
        Some(mut f) if spec.stdin_pipe => {
            let mut buf = Vec::new();
            let _ = f.read_to_end(&mut buf);
            pipe_payload = Some(buf);
            cmd.stdin(Stdio::piped());
        }
        Some(f) => {
            cmd.stdin(Stdio::from(f));
        }
        None => {
            cmd.stdin(Stdio::null());
        }
    }
    let out_path = scratch.dir.join("stdout");
    let err_path = scratch.dir.join("stderr");
    let out_f = std::fs::File::create(&out_path).expect("stdout file");
    let err_f = std::fs::File::create(&err_path).expect("stderr file");
    cmd.stdout(Stdio::from(out_f));
    cmd.stderr(Stdio::from(err_f));
    cmd.current_dir(&cwd);
    let cpus = spec.cpus.clone();
    let unprivileged = spec.unprivileged;
    if unprivileged {
        use std::os::unix::fs::PermissionsExt;
        for d in [scratch.dir.clone(), cwd.clone(), scratch.dir.join("home"), scratch.dir.join("tmp")] {
            let _ = std::fs::set_permissions(&d, std::fs::Permissions::from_mode(0o777));
        }
        if let Ok(rd) = std::fs::read_dir(&cwd) {
            for e in rd.flatten() {
                let _ = std::fs::set_permissions(e.path(), std::fs::Permissions::from_mode(0o777));
            }
        }
    }
    unsafe {
        cmd.pre_exec(move || {
            libc::setpgid(0, 0);
            if unprivileged {
                libc::setgroups(0, std::ptr::null());
                libc::setgid(65534);
                libc::setuid(65534);
            }
            let lim = |res, soft: u64, hard: u64| {
                let r = libc::rlimit { rlim_cur: soft, rlim_max: hard };
                libc::setrlimit(res, &r);
            };
            lim(libc::RLIMIT_CPU, 60, 70);
            lim(libc::RLIMIT_FSIZE, 256 << 20, 256 << 20);
            lim(libc::RLIMIT_CORE, 0, 0);
            lim(libc::RLIMIT_NOFILE, 256, 4096);
            if !cpus.is_empty() {
                let mut set: libc::cpu_set_t = std::mem::zeroed();
                for c in &cpus {
                    libc::CPU_SET(*c, &mut set);
                }
                libc::sched_setaffinity(0, std::mem::size_of::<libc::cpu_set_t>(), &set);
            }
            Ok(())
        });
    }
    let timeout = if spec.timeout_ms == 0 { 10_000 } else { spec.timeout_ms };
    let start = Instant::now();
    let mut child = match cmd.spawn() {
        Ok(c) => c,
        Err(e) => {
            return Obs {
                status: Status::Exit(-1),
                stdout: vec![],
                stderr: format!("bverif: spawn failed: {e}").into_bytes(),
                files: BTreeMap::new(),
                wall_ms: 0,
            }
        }
    };
    if let (Some(payload), Some(mut si)) = (pipe_payload, child.stdin.take()) {
        std::thread::spawn(move || {
            let _ = si.write_all(&payload);
        });
    }
    let pid = child.id() as i32;
    let flag = Arc::new(AtomicBool::new(false));
    watch_table()
        .lock()
        .unwrap()
        .insert(pid, Watched { deadline: start + Duration::from_millis(timeout), flag: flag.clone() });
    let st = child.wait();
    watch_table().lock().unwrap().remove(&pid);
    // reap every leftover member of the process group
    unsafe {
        libc::kill(-pid, libc::SIGKILL);
    }
    let wall_ms = start.elapsed().as_millis() as u64;
    let status = if flag.load(Ordering::SeqCst) {
        Status::Timeout
    } else {
        match st {
            Ok(s) => {
                if let Some(c) = s.code() {
                    Status::Exit(c)
                } else if let Some(sig) = s.signal() {
                    Status::Signal(sig)
                } else {
                    Status::Exit(-2)
                }
            }
            Err(_) => Status::Exit(-3),
        }
    };
    let max_out = if opts.max_out == 0 { 4 << 20 } else { opts.max_out };
    let read_capped = |p: &Path| -> Vec<u8> {
        let mut buf = Vec::new();
        if let Ok(f) = std::fs::File::open(p) {
            let _ = f.take(max_out as u64).read_to_end(&mut buf);
        }
        buf
    };
    let sdir = scratch.dir.to_string_lossy().into_owned();
    let stdout = replace_bytes(&read_capped(&out_path), sdir.as_bytes(), b"/S");
    let stderr = replace_bytes(&read_capped(&err_path), sdir.as_bytes(), b"/S");
    let mut files = BTreeMap::new();
    if spec.collect_files {
        collect(&cwd, Path::new(""), &mut files);
    }
    Obs { status, stdout, stderr, files, wall_ms }
}

pub fn replace_bytes(hay: &[u8], from: &[u8], to: &[u8]) -> Vec<u8> {
    if from.is_empty() || hay.len() < from.len() {
        return hay.to_vec();
    }
    let mut out = Vec::with_capacity(hay.len());
    let mut i = 0;
    while i < hay.len() {
        if i + from.len() <= hay.len() && &hay[i..i + from.len()] == from {
            out.extend_from_slice(to);
            i += from.len();
        } else {
            out.push(hay[i]);
            i += 1;
        }
    }
    out
}

/// Convenience: write bytes to a writer ignoring errors.
pub fn wr(mut w: impl Write, s: &str) {
    let _ = w.write_all(s.as_bytes());
}

/// Run a prepared command with piped stdout and a hard deadline; None on time-out or spawn failure.
pub fn output_with_timeout(cmd: &mut Command, timeout_ms: u64) -> Option<(Status, Vec<u8>)> {
    cmd.stdin(Stdio::null());
    cmd.stdout(Stdio::piped());
    cmd.stderr(Stdio::null());
    unsafe {
        cmd.pre_exec(|| {
            libc::setpgid(0, 0);
            Ok(())
        });
    }
    let mut child = cmd.spawn().ok()?;
    let pid = child.id() as i32;
    let flag = Arc::new(AtomicBool::new(false));
    watch_table()
        .lock()
        .unwrap()
        .insert(pid, Watched { deadline: Instant::now() + Duration::from_millis(timeout_ms), flag: flag.clone() });
    let mut out = Vec::new();
    if let Some(mut so) = child.stdout.take() {
        let _ = so.read_to_end(&mut out);
    }
    let st = child.wait();
    watch_table().lock().unwrap().remove(&pid);
    if flag.load(Ordering::SeqCst) {
        return None;
    }
    let st = st.ok()?;
    let status = if let Some(c) = st.code() {
        Status::Exit(c)
    } else {
        Status::Signal(st.signal().unwrap_or(0))
    };
    Some((status, out))
}

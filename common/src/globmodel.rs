//! Reference matcher for shell patterns (POSIX.2 pattern matching notation + bash extglob),
//! written as a plain backtracking matcher over `char`s.  It is deliberately simple; it is
//! cross-checked against bash wherever a verdict depends on it.

#[derive(Clone, Debug, PartialEq, Eq)]
pub enum BrItem {
    Ch(char),
    Range(char, char),
    Class(String),
}

#[derive(Clone, Debug, PartialEq, Eq)]
pub enum Node {
    Lit(char),
    Any,
    Star,
    Bracket { neg: bool, items: Vec<BrItem> },
    /// kind in `?*+@!`
    Ext(char, Vec<Vec<Node>>),
}

#[derive(Clone, Copy, Debug, Default)]
pub struct Opts {
    pub extglob: bool,
    pub nocase: bool,
}

/// Parse failure = the model does not define the pattern (callers skip such patterns).
pub fn parse(p: &str, o: Opts) -> Option<Vec<Node>> {
    let cs: Vec<char> = p.chars().collect();
    let (nodes, end) = parse_seq(&cs, 0, o, false)?;
    if end != cs.len() {
        return None;
    }
    Some(nodes)
}

/// parses until end, or (when `in_ext`) until an unnested `|` or `)`
fn parse_seq(cs: &[char], mut i: usize, o: Opts, in_ext: bool) -> Option<(Vec<Node>, usize)> {
    let mut out = vec![];
    while i < cs.len() {
        let c = cs[i];
        if in_ext && (c == '|' || c == ')') {
            break;
        }
        if o.extglob && "?*+@!".contains(c) && i + 1 < cs.len() && cs[i + 1] == '(' {
            // extglob group
            let mut alts = vec![];
            let mut j = i + 2;
            loop {
                let (alt, e) = parse_seq(cs, j, o, true)?;
                alts.push(alt);
                if e >= cs.len() {
                    return None; // unterminated group: not modelled
                }
                if cs[e] == '|' {
                    j = e + 1;
                    continue;
                }
                // ')'
                j = e + 1;
                break;
            }
            out.push(Node::Ext(c, alts));
            i = j;
            continue;
        }
        match c {
            '\\' => {
                if i + 1 >= cs.len() {
                    return None; // trailing backslash: unspecified
                }
                out.push(Node::Lit(cs[i + 1]));
                i += 2;
            }
            '?' => {
                out.push(Node::Any);
                i += 1;
            }
            '*' => {
                out.push(Node::Star);
                i += 1;
            }
            '[' => match parse_bracket(cs, i) {
                Some((n, e)) => {
                    out.push(n);
                    i = e;
                }
                None => {
                    out.push(Node::Lit('['));
                    i += 1;
                }
            },
            _ => {
                out.push(Node::Lit(c));
                i += 1;
            }
        }
    }
    Some((out, i))
}

/// cs[i] == '['; returns the bracket node and the index after the closing ']'
fn parse_bracket(cs: &[char], i: usize) -> Option<(Node, usize)> {
    let mut j = i + 1;
    let mut neg = false;
    if j < cs.len() && (cs[j] == '!' || cs[j] == '^') {
        neg = true;
        j += 1;
    }
    let mut items = vec![];
    let mut first = true;
    loop {
        if j >= cs.len() {
            return None;
        }
        let c = cs[j];
        if c == ']' && !first {
            j += 1;
            break;
        }
        first = false;
        // character class
        if c == '[' && j + 1 < cs.len() && cs[j + 1] == ':' {
            if let Some(end) = find_seq(cs, j + 2, &[':', ']']) {
                let name: String = cs[j + 2..end].iter().collect();
                items.push(BrItem::Class(name));
                j = end + 2;
                continue;
            }
        }
        let lo = if c == '\\' && j + 1 < cs.len() {
            j += 1;
            cs[j]
        } else {
            c
        };
        j += 1;
        // range?
        if j + 1 < cs.len() && cs[j] == '-' && cs[j + 1] != ']' {
            let mut k = j + 1;
            let hi = if cs[k] == '\\' && k + 1 < cs.len() {
                k += 1;
                cs[k]
            } else {
                cs[k]
            };
            items.push(BrItem::Range(lo, hi));
            j = k + 1;
        } else {
            items.push(BrItem::Ch(lo));
        }
    }
    Some((Node::Bracket { neg, items }, j))
}

fn find_seq(cs: &[char], from: usize, pat: &[char]) -> Option<usize> {
    let mut k = from;
    while k + pat.len() <= cs.len() {
        if &cs[k..k + pat.len()] == pat {
            return Some(k);
        }
        k += 1;
    }
    None
}

fn class_matches(name: &str, c: char) -> Option<bool> {
    Some(match name {
        "alpha" => c.is_ascii_alphabetic(),
        "digit" => c.is_ascii_digit(),
        "alnum" => c.is_ascii_alphanumeric(),
        "upper" => c.is_ascii_uppercase(),
        "lower" => c.is_ascii_lowercase(),
        "space" => matches!(c, ' ' | '\t' | '\n' | '\r' | '\x0b' | '\x0c'),
        "blank" => matches!(c, ' ' | '\t'),
        "punct" => c.is_ascii_punctuation(),
        "xdigit" => c.is_ascii_hexdigit(),
        "cntrl" => c.is_ascii_control(),
        "print" => c.is_ascii_graphic() || c == ' ',
        "graph" => c.is_ascii_graphic(),
        _ => return None,
    })
}

fn fold(c: char, nocase: bool) -> char {
    if nocase {
        c.to_lowercase().next().unwrap_or(c)
    } else {
        c
    }
}

fn bracket_matches(neg: bool, items: &[BrItem], c: char, nocase: bool) -> bool {
    let mut hit = false;
    for it in items {
        let m = match it {
            BrItem::Ch(x) => fold(*x, nocase) == fold(c, nocase),
            BrItem::Range(lo, hi) => {
                (*lo <= c && c <= *hi)
                    || (nocase && {
                        let l = c.to_lowercase().next().unwrap_or(c);
                        let u = c.to_uppercase().next().unwrap_or(c);
                        (*lo <= l && l <= *hi) || (*lo <= u && u <= *hi)
                    })
            }
            // bash does not fold character classes under nocasematch/nocaseglob
            BrItem::Class(n) => class_matches(n, c).unwrap_or(false),
        };
        if m {
            hit = true;
            break;
        }
    }
    hit != neg
}

pub fn matches_nodes(nodes: &[Node], s: &[char], o: Opts) -> bool {
    match nodes.first() {
        None => s.is_empty(),
        Some(Node::Lit(c)) => !s.is_empty() && fold(*c, o.nocase) == fold(s[0], o.nocase) && matches_nodes(&nodes[1..], &s[1..], o),
        Some(Node::Any) => !s.is_empty() && matches_nodes(&nodes[1..], &s[1..], o),
        Some(Node::Star) => (0..=s.len()).any(|k| matches_nodes(&nodes[1..], &s[k..], o)),
        Some(Node::Bracket { neg, items }) => !s.is_empty() && bracket_matches(*neg, items, s[0], o.nocase) && matches_nodes(&nodes[1..], &s[1..], o),
        Some(Node::Ext(kind, alts)) => (0..=s.len()).any(|k| ext_matches(*kind, alts, &s[..k], o) && matches_nodes(&nodes[1..], &s[k..], o)),
    }
}

fn any_alt(alts: &[Vec<Node>], t: &[char], o: Opts) -> bool {
    alts.iter().any(|a| matches_nodes(a, t, o))
}

fn star_alt(alts: &[Vec<Node>], t: &[char], o: Opts) -> bool {
    if t.is_empty() {
        return true;
    }
    (1..=t.len()).any(|k| any_alt(alts, &t[..k], o) && star_alt(alts, &t[k..], o))
}

fn ext_matches(kind: char, alts: &[Vec<Node>], t: &[char], o: Opts) -> bool {
    match kind {
        '@' => any_alt(alts, t, o),
        '?' => t.is_empty() || any_alt(alts, t, o),
        '*' => star_alt(alts, t, o),
        '+' => (t.is_empty() && any_alt(alts, t, o)) || (1..=t.len()).any(|k| any_alt(alts, &t[..k], o) && star_alt(alts, &t[k..], o)),
        '!' => !any_alt(alts, t, o),
        _ => false,
    }
}

/// None = pattern outside the model's domain
pub fn matches(p: &str, s: &str, o: Opts) -> Option<bool> {
    let nodes = parse(p, o)?;
    if has_unknown_class(&nodes) {
        return None;
    }
    let cs: Vec<char> = s.chars().collect();
    Some(matches_nodes(&nodes, &cs, o))
}

fn has_unknown_class(nodes: &[Node]) -> bool {
    nodes.iter().any(|n| match n {
        Node::Bracket { items, .. } => items.iter().any(|i| match i {
            BrItem::Class(n) => class_matches(n, 'a').is_none(),
            BrItem::Range(lo, hi) => lo > hi,
            _ => false,
        }),
        Node::Ext(_, alts) => alts.iter().any(|a| has_unknown_class(a)),
        _ => false,
    })
}

pub fn has_meta(p: &str, o: Opts) -> bool {
    match parse(p, o) {
        Some(n) => n.iter().any(|x| !matches!(x, Node::Lit(_))) || p.contains('\\'),
        None => true,
    }
}

/// `${s#p}` / `${s##p}` / `${s%p}` / `${s%%p}` by the definition in the property: remove the
/// shortest/longest prefix/suffix that the pattern matches entirely (the empty one included).
pub fn remove(p: &str, s: &str, o: Opts, suffix: bool, longest: bool) -> Option<String> {
    let nodes = parse(p, o)?;
    if has_unknown_class(&nodes) {
        return None;
    }
    let cs: Vec<char> = s.chars().collect();
    let n = cs.len();
    let lens: Vec<usize> = if longest { (0..=n).rev().collect() } else { (0..=n).collect() };
    for k in lens {
        let (part, rest) = if suffix { (&cs[n - k..], &cs[..n - k]) } else { (&cs[..k], &cs[k..]) };
        if matches_nodes(&nodes, part, o) {
            return Some(rest.iter().collect());
        }
    }
    Some(s.to_string())
}

#[cfg(test)]
mod tests {
    use super::*;
    fn m(p: &str, s: &str) -> bool {
        matches(p, s, Opts { extglob: true, nocase: false }).unwrap()
    }
    #[test]
    fn basics() {
        assert!(m("a*b", "axxb"));
        assert!(!m("a*b", "axxbc"));
        assert!(m("[]a]", "]"));
        assert!(m("[!]]", "a"));
        assert!(!m("[!]]", "]"));
        assert!(m("[a-]", "-"));
        assert!(m("[\\]]", "]"));
        assert!(m("[a", "[a"));
        assert!(m("@(a|b)c", "bc"));
        assert!(m("!(a)", "b"));
        assert!(!m("!(a)", "a"));
        assert!(m("!(a)", ""));
        assert!(m("*(ab)", "abab"));
        assert!(m("+(a|b)", "abba"));
        assert!(!m("+(a|b)", ""));
        assert!(!m("abc", "x\nabc"));
        assert!(m("*", "x\ny"));
        assert_eq!(remove("*", "abc", Opts::default(), false, false).unwrap(), "abc");
        assert_eq!(remove("*", "abc", Opts::default(), false, true).unwrap(), "");
        assert_eq!(remove("a*", "abc", Opts::default(), false, false).unwrap(), "bc");
        assert_eq!(remove("*c", "abc", Opts::default(), true, false).unwrap(), "ab");
    }
}

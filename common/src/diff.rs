//! Differential oracle: the same case under bash and brush.

use crate::exec::{run_case, run_case_opts, CaseSpec, Obs, RunOpts, ShellKind, Status};

#[derive(Clone, Debug)]
pub struct DiffCfg {
    /// compare exit status exactly (else zero / non-zero)
    pub exit_exact: bool,
    /// compare stderr as empty / non-empty
    pub stderr_emptiness: bool,
    /// compare scratch-directory contents
    pub files: bool,
}

impl Default for DiffCfg {
    fn default() -> Self {
        DiffCfg { exit_exact: true, stderr_emptiness: false, files: false }
    }
}

pub struct Pair {
    pub bash: Obs,
    pub brush: Obs,
}

pub fn run_pair(spec: &CaseSpec) -> Pair {
    let bash = run_case(ShellKind::Bash, spec);
    let brush = run_case(ShellKind::Brush, spec);
    Pair { bash, brush }
}

pub fn run_pair_opts(spec: &CaseSpec, opts: &RunOpts) -> Pair {
    let bash = run_case_opts(ShellKind::Bash, spec, opts);
    let brush = run_case_opts(ShellKind::Brush, spec, opts);
    Pair { bash, brush }
}

/// bash rejected the program as syntactically invalid → the case is outside the domain
pub fn bash_rejects(bash: &Obs) -> bool {
    let e = bash.err_lossy();
    e.contains("syntax error") || e.contains("unexpected EOF") || e.contains("unexpected end of file")
}

fn first_diff(a: &[u8], b: &[u8]) -> String {
    let n = a.iter().zip(b.iter()).take_while(|(x, y)| x == y).count();
    let ctx = |s: &[u8]| {
        let lo = n.saturating_sub(60);
        let hi = (n + 60).min(s.len());
        String::from_utf8_lossy(&s[lo..hi]).into_owned()
    };
    format!("first difference at byte {n}: bash …{:?}… vs brush …{:?}…", ctx(a), ctx(b))
}

pub fn compare(p: &Pair, cfg: &DiffCfg) -> Option<String> {
    if p.brush.panicked() {
        return Some(format!("brush crashed: status {:?}, stderr {}", p.brush.status, crate::exec::trunc(&p.brush.err_lossy(), 400)));
    }
    if p.bash.stdout != p.brush.stdout {
        return Some(format!("stdout differs: {}", first_diff(&p.bash.stdout, &p.brush.stdout)));
    }
    let same_status = if cfg.exit_exact {
        p.bash.status == p.brush.status
    } else {
        p.bash.status.zero() == p.brush.status.zero() && !matches!(p.brush.status, Status::Timeout | Status::Signal(_))
    };
    if !same_status {
        return Some(format!("exit status differs: bash {:?} vs brush {:?} (brush stderr: {})", p.bash.status, p.brush.status, crate::exec::trunc(&p.brush.err_lossy(), 300)));
    }
    if cfg.stderr_emptiness && p.bash.stderr.is_empty() != p.brush.stderr.is_empty() {
        return Some(format!(
            "stderr emptiness differs: bash {:?} vs brush {:?}",
            crate::exec::trunc(&p.bash.err_lossy(), 200),
            crate::exec::trunc(&p.brush.err_lossy(), 200)
        ));
    }
    if cfg.files && p.bash.files != p.brush.files {
        let mut d = vec![];
        for (k, v) in &p.bash.files {
            match p.brush.files.get(k) {
                None => d.push(format!("{k}: missing in brush")),
                Some(w) if w != v => d.push(format!("{k}: bash {:?} vs brush {:?}", String::from_utf8_lossy(v), String::from_utf8_lossy(w))),
                _ => {}
            }
        }
        for k in p.brush.files.keys() {
            if !p.bash.files.contains_key(k) {
                d.push(format!("{k}: only in brush"));
            }
        }
        return Some(format!("files differ: {}", crate::exec::trunc(&d.join("; "), 600)));
    }
    None
}

/// Full differential judgement of one case: validity, hang policy, comparison.
/// Returns (outcome, pair) so callers can add labels / samples.
pub fn judge(spec: &CaseSpec, cfg: &DiffCfg) -> (crate::runner::Outcome, Pair) {
    use crate::runner::Outcome;
    let p = run_pair(spec);
    if bash_rejects(&p.bash) {
        return (Outcome::Skip("bash: syntax error".into()), p);
    }
    if p.bash.status == Status::Timeout {
        return (Outcome::Inconclusive("bash timed out".into()), p);
    }
    if p.brush.status == Status::Timeout {
        // hang policy: bash finished; brush must reproduce the hang 3/3 with a 3x limit
        let limit = if spec.timeout_ms == 0 { 10_000 } else { spec.timeout_ms };
        if p.bash.wall_ms * 20 > limit {
            return (Outcome::Inconclusive("brush timed out but bash was not 20x faster than the limit".into()), p);
        }
        let mut s2 = spec.clone();
        s2.timeout_ms = limit * 3;
        for _ in 0..2 {
            let again = run_case(ShellKind::Brush, &s2);
            if again.status != Status::Timeout {
                return (Outcome::Inconclusive("brush time-out did not reproduce".into()), p);
            }
        }
        return (Outcome::Fail(format!("brush hangs (bash finished in {} ms; brush exceeded {} ms three times)", p.bash.wall_ms, limit)), p);
    }
    match compare(&p, cfg) {
        Some(d) => (Outcome::Fail(d), p),
        None => (Outcome::Pass, p),
    }
}

//! Evidence files, replay files, known findings, exit codes.

use crate::exec::verif_root;
use crate::runner::{hash_str, Ctx, Failure, LayerReport, Tier};
use serde::{Deserialize, Serialize};
use serde_json::{json, Value};
use std::collections::BTreeMap;
use std::path::{Path, PathBuf};
use std::time::Instant;

#[derive(Clone, Debug, Serialize, Deserialize)]
pub struct KnownEntry {
    pub id: String,
    pub property: String,
    /// "known" or "fixed"
    pub status: String,
    #[serde(default)]
    pub commit: String,
    pub what: String,
    /// path relative to /verif
    pub replay: String,
    /// exclusion class activated while a *known* entry still reproduces ("" = none)
    #[serde(default)]
    pub class: String,
    #[serde(default)]
    pub also_excludes: Vec<String>,
}

#[derive(Clone, Debug, Serialize, Deserialize, Default)]
pub struct KnownFile {
    pub findings: Vec<KnownEntry>,
}

pub fn load_known() -> KnownFile {
    let p = verif_root().join("known_findings.json");
    match std::fs::read_to_string(&p) {
        Ok(s) => serde_json::from_str(&s).unwrap_or_else(|e| {
            eprintln!("bverif: cannot parse {}: {e}", p.display());
            std::process::exit(2);
        }),
        Err(_) => KnownFile::default(),
    }
}

#[derive(Clone, Debug, Serialize, Deserialize)]
pub struct ReplayFile {
    pub property: String,
    pub layer: String,
    pub case: Value,
    #[serde(default)]
    pub rendered: String,
    #[serde(default)]
    pub detail: String,
}

/// Result of replaying one file
#[derive(Clone, Debug, PartialEq, Eq)]
pub enum Replayed {
    Fails(String),
    Passes,
    Error(String),
}

pub struct PropRun {
    pub prop: String,
    pub tier: Tier,
    pub seed: u64,
    pub start: Instant,
    pub layers: Vec<LayerReport>,
    pub rule: String,
    pub assumptions: Vec<String>,
    pub notes: Vec<String>,
    /// reason for exit 2 (cannot decide)
    pub fatal: Option<String>,
    pub known_lines: Vec<String>,
    pub extra_violations: Vec<(String, String)>, // (replay path, detail)
    pub extra: BTreeMap<String, Value>,
}

impl PropRun {
    pub fn new(prop: &str, tier: Tier, seed: u64) -> PropRun {
        PropRun {
            prop: prop.to_string(),
            tier,
            seed,
            start: Instant::now(),
            layers: vec![],
            rule: String::new(),
            assumptions: vec![],
            notes: vec![],
            fatal: None,
            known_lines: vec![],
            extra_violations: vec![],
            extra: BTreeMap::new(),
        }
    }

    /// Run the canonical replays of listed findings; activate exclusion classes.
    pub fn apply_known(&mut self, ctx: &mut Ctx, replay: &dyn Fn(&Path) -> Replayed) {
        let kf = load_known();
        for e in &kf.findings {
            let owner = e.property == self.prop;
            let inherits = e.also_excludes.iter().any(|p| p == &self.prop);
            if !owner && !inherits {
                continue;
            }
            let path = verif_root().join(&e.replay);
            let r = replay(&path);
            match (e.status.as_str(), r) {
                ("known", Replayed::Fails(_)) => {
                    if owner {
                        let line = format!("KNOWN-FINDING: property={} {} [{}]", self.prop, e.what, e.id);
                        println!("{line}");
                        self.known_lines.push(line);
                    }
                    if !e.class.is_empty() {
                        ctx.active_classes.insert(e.class.clone());
                    }
                }
                ("known", Replayed::Passes) => {
                    self.notes.push(format!("known finding {} no longer reproduces; its class is searched again", e.id));
                }
                ("fixed", Replayed::Fails(d)) => {
                    if owner {
                        self.extra_violations.push((e.replay.clone(), format!("fixed finding {} is back: {}", e.id, d)));
                    }
                }
                ("fixed", Replayed::Passes) => {}
                (_, Replayed::Error(msg)) => {
                    self.notes.push(format!("replay of {} could not run: {}", e.id, msg));
                    if owner {
                        self.fatal = Some(format!("replay of listed finding {} could not run: {}", e.id, msg));
                    }
                }
                _ => {}
            }
        }
    }

    pub fn add(&mut self, rep: LayerReport) {
        eprintln!(
            "[{}] layer {}: generated {} evaluated {} distinct-nontrivial {} skipped {} inconclusive {} excluded {:?} failures {}",
            self.prop,
            rep.name,
            rep.generated,
            rep.evaluations,
            rep.distinct_nontrivial,
            rep.skipped,
            rep.inconclusive,
            rep.excluded,
            rep.failures.len()
        );
        self.layers.push(rep);
    }

    pub fn save_failure(&self, f: &Failure) -> PathBuf {
        let dir = verif_root().join("replays").join(&self.prop);
        let _ = std::fs::create_dir_all(&dir);
        let h = hash_str(&format!("{}|{}", f.layer, f.rendered));
        let path = dir.join(format!("fail-{:016x}.json", h));
        let rf = ReplayFile {
            property: self.prop.clone(),
            layer: f.layer.clone(),
            case: f.case.clone(),
            rendered: f.rendered.clone(),
            detail: f.detail.clone(),
        };
        let _ = std::fs::write(&path, serde_json::to_string_pretty(&rf).unwrap_or_default());
        path
    }

    /// Write evidence, print violations, return the process exit code.
    pub fn finish(mut self) -> i32 {
        let mut violations = 0;
        for (p, d) in &self.extra_violations {
            println!("VIOLATION property={} replay={}", self.prop, verif_root().join(p).display());
            eprintln!("  detail: {}", crate::exec::trunc(d, 2000));
            violations += 1;
        }
        let layers = std::mem::take(&mut self.layers);
        for l in &layers {
            for f in &l.failures {
                let p = self.save_failure(f);
                println!("VIOLATION property={} replay={}", self.prop, p.display());
                eprintln!("  layer: {}\n  case: {}\n  detail: {}", f.layer, crate::exec::trunc(&f.rendered, 3000), crate::exec::trunc(&f.detail, 3000));
                violations += 1;
            }
        }
        // skip-rate guard (generator validity): more than 5 % skipped in any layer with >200 cases
        for l in &layers {
            if l.generated >= 200 && l.skipped * 20 > l.generated && self.fatal.is_none() {
                self.fatal = Some(format!(
                    "generator invalid: layer {} had {}/{} cases rejected by the oracle ({:?})",
                    l.name, l.skipped, l.generated, l.skip_reasons
                ));
            }
        }
        let evaluations: u64 = layers.iter().map(|l| l.evaluations).sum();
        let distinct: u64 = layers.iter().map(|l| l.distinct_nontrivial).sum();
        let mut labels: BTreeMap<String, u64> = BTreeMap::new();
        let mut excluded: BTreeMap<String, u64> = BTreeMap::new();
        let mut samples: Vec<Value> = vec![];
        let mut per_layer = serde_json::Map::new();
        let mut skipped = 0;
        let mut inconclusive = 0;
        for l in &layers {
            for (k, v) in &l.labels {
                *labels.entry(format!("{}:{}", l.name, k)).or_insert(0) += v;
            }
            for (k, v) in &l.excluded {
                *excluded.entry(k.clone()).or_insert(0) += v;
            }
            for s in l.samples.iter().take(6) {
                samples.push(s.clone());
            }
            skipped += l.skipped;
            inconclusive += l.inconclusive;
            per_layer.insert(
                l.name.clone(),
                json!({
                    "generated": l.generated,
                    "evaluations": l.evaluations,
                    "distinct_nontrivial": l.distinct_nontrivial,
                    "skipped_invalid": l.skipped,
                    "skip_reasons": l.skip_reasons,
                    "inconclusive": l.inconclusive,
                    "excluded_known": l.excluded,
                    "exhaustive": l.exhaustive,
                    "failures": l.failures.len(),
                    "notes": l.notes,
                }),
            );
        }
        let exhaustive_all = !layers.is_empty() && layers.iter().all(|l| l.exhaustive);
        let mut coverage = serde_json::Map::new();
        coverage.insert("evaluations".into(), json!(evaluations));
        coverage.insert("distinct_nontrivial".into(), json!(distinct));
        coverage.insert("rule".into(), json!(self.rule));
        coverage.insert("samples".into(), Value::Array(samples));
        coverage.insert("labels".into(), json!(labels));
        coverage.insert("excluded_known".into(), json!(excluded));
        coverage.insert("skipped_invalid".into(), json!(skipped));
        coverage.insert("inconclusive".into(), json!(inconclusive));
        coverage.insert("layers".into(), Value::Object(per_layer));
        coverage.insert("exhaustive".into(), json!(exhaustive_all));
        coverage.insert("known_findings_reported".into(), json!(self.known_lines));
        coverage.insert("notes".into(), json!(self.notes));
        for (k, v) in &self.extra {
            coverage.insert(k.clone(), v.clone());
        }
        if let Some(f) = &self.fatal {
            coverage.insert("undecided".into(), json!(f));
        }
        let ev = json!({
            "property_id": self.prop,
            "tier": self.tier.name(),
            "seed": self.seed,
            "level": "exploration",
            "coverage": Value::Object(coverage),
            "assumptions": self.assumptions,
            "wall_s": self.start.elapsed().as_secs_f64(),
            "violations": violations,
        });
        let dir = verif_root().join("evidence");
        let _ = std::fs::create_dir_all(&dir);
        let path = dir.join(format!("{}.json", self.prop));
        if let Err(e) = std::fs::write(&path, serde_json::to_string_pretty(&ev).unwrap_or_default()) {
            eprintln!("bverif: cannot write evidence {}: {e}", path.display());
        }
        eprintln!(
            "[{}] {} seed={} evaluations={} distinct_nontrivial={} violations={} wall={:.1}s",
            self.prop,
            self.tier.name(),
            self.seed,
            evaluations,
            distinct,
            violations,
            self.start.elapsed().as_secs_f64()
        );
        if violations > 0 {
            1
        } else if let Some(f) = &self.fatal {
            eprintln!("UNDECIDED property={} reason={}", self.prop, f);
            2
        } else {
            0
        }
    }
}

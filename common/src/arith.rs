//! Arithmetic expressions: AST, proptest strategy, two renderers (minimal / redundant
//! parentheses) and a reference evaluator over wrapping i64 with bash's semantics
//! (short-circuit, left-to-right side effects, recursive evaluation of variable contents).

use proptest::prelude::*;
use serde::{Deserialize, Serialize};
use std::collections::BTreeMap;

#[derive(Clone, Debug, Serialize, Deserialize, PartialEq, Eq, Hash)]
pub enum Lv {
    Var(String),
    Elem(String, Box<A>),
}

#[derive(Clone, Debug, Serialize, Deserialize, PartialEq, Eq, Hash)]
pub enum A {
    /// literal text (decimal, 0octal, 0xhex, base#digits) and its value
    Num(String, i64),
    Get(Lv),
    Un(String, Box<A>),
    Bin(String, Box<A>, Box<A>),
    Assign(String, Lv, Box<A>),
    PreInc(Lv),
    PreDec(Lv),
    PostInc(Lv),
    PostDec(Lv),
    Cond(Box<A>, Box<A>, Box<A>),
    Comma(Box<A>, Box<A>),
}

pub const BINOPS: &[&str] = &["**", "*", "/", "%", "+", "-", "<<", ">>", "<", "<=", ">", ">=", "==", "!=", "&", "^", "|", "&&", "||"];
pub const UNOPS: &[&str] = &["-", "+", "!", "~"];
pub const ASSIGNOPS: &[&str] = &["=", "*=", "/=", "%=", "+=", "-=", "<<=", ">>=", "&=", "^=", "|="];

/// binding power: higher binds tighter
pub fn prec(op: &str) -> u8 {
    match op {
        "**" => 14,
        "*" | "/" | "%" => 13,
        "+" | "-" => 12,
        "<<" | ">>" => 11,
        "<" | "<=" | ">" | ">=" => 10,
        "==" | "!=" => 9,
        "&" => 8,
        "^" => 7,
        "|" => 6,
        "&&" => 5,
        "||" => 4,
        _ => 0,
    }
}
const P_COMMA: u8 = 1;
const P_ASSIGN: u8 = 2;
const P_COND: u8 = 3;
const P_UNARY: u8 = 15;
const P_PRE: u8 = 16;
const P_POST: u8 = 17;
const P_ATOM: u8 = 18;

impl Lv {
    fn render(&self, full: bool, out: &mut String) {
        match self {
            Lv::Var(n) => out.push_str(n),
            Lv::Elem(n, i) => {
                out.push_str(n);
                out.push('[');
                i.render_p(0, full, out);
                out.push(']');
            }
        }
    }
}

impl A {
    fn own_prec(&self) -> u8 {
        match self {
            A::Num(_, v) => {
                if *v < 0 {
                    P_UNARY
                } else {
                    P_ATOM
                }
            }
            A::Get(_) => P_ATOM,
            A::Un(..) => P_UNARY,
            A::Bin(op, ..) => prec(op),
            A::Assign(..) => P_ASSIGN,
            A::PreInc(_) | A::PreDec(_) => P_PRE,
            A::PostInc(_) | A::PostDec(_) => P_POST,
            A::Cond(..) => P_COND,
            A::Comma(..) => P_COMMA,
        }
    }

    /// render so that the result parses back to this tree in a context that requires binding
    /// power >= `min`; `full` adds redundant parentheses and spaces everywhere
    fn render_p(&self, min: u8, full: bool, out: &mut String) {
        let need = full && !matches!(self, A::Num(..) | A::Get(_)) || self.own_prec() < min;
        if need {
            out.push('(');
        }
        let sp = if full { " " } else { "" };
        match self {
            A::Num(t, _) => out.push_str(t),
            A::Get(lv) => lv.render(full, out),
            A::Un(op, e) => {
                out.push_str(op);
                // avoid gluing `- -x` into `--x`, `+ +x` into `++x`
                let mut inner = String::new();
                e.render_p(P_UNARY, full, &mut inner);
                if inner.starts_with(op.as_str()) || inner.starts_with('-') && op == "-" || inner.starts_with('+') && op == "+" {
                    out.push(' ');
                }
                out.push_str(&inner);
            }
            A::Bin(op, l, r) => {
                let p = prec(op);
                let (lp, rp) = if op == "**" { (p + 1, p) } else { (p, p + 1) };
                l.render_p(lp, full, out);
                // a space keeps `a - -b`, `a + +b`, `a & &` etc. from gluing into other tokens
                out.push(' ');
                out.push_str(op);
                out.push(' ');
                r.render_p(rp, full, out);
            }
            A::Assign(op, lv, e) => {
                lv.render(full, out);
                out.push_str(sp);
                out.push_str(op);
                out.push_str(sp);
                e.render_p(P_ASSIGN, full, out);
            }
            A::PreInc(lv) => {
                out.push_str("++");
                lv.render(full, out);
            }
            A::PreDec(lv) => {
                out.push_str("--");
                lv.render(full, out);
            }
            A::PostInc(lv) => {
                lv.render(full, out);
                out.push_str("++");
            }
            A::PostDec(lv) => {
                lv.render(full, out);
                out.push_str("--");
            }
            A::Cond(c, t, e) => {
                c.render_p(P_COND + 1, full, out);
                out.push_str(" ? ");
                // the middle operand is parsed as a full expression by bash (up to the colon),
                // but an assignment/comma there is kept parenthesised to stay within common ground
                t.render_p(P_COND, full, out);
                out.push_str(" : ");
                e.render_p(P_COND, full, out);
            }
            A::Comma(l, r) => {
                l.render_p(P_COMMA, full, out);
                out.push_str(", ");
                r.render_p(P_COMMA + 1, full, out);
            }
        }
        if need {
            out.push(')');
        }
    }

    pub fn render_min(&self) -> String {
        let mut s = String::new();
        self.render_p(0, false, &mut s);
        s
    }
    pub fn render_full(&self) -> String {
        let mut s = String::new();
        self.render_p(0, true, &mut s);
        s
    }
}

// ---------------------------------------------------------------------------------------------
// reference evaluator
// ---------------------------------------------------------------------------------------------

#[derive(Clone, Debug, PartialEq, Eq, Serialize, Deserialize)]
pub enum ArithErr {
    DivZero,
    NegExp,
    /// variable content could not be evaluated, recursion too deep, bad subscript …
    Other(String),
}

#[derive(Clone, Debug, Default, PartialEq, Eq)]
pub struct Env {
    pub scalars: BTreeMap<String, String>,
    pub arrays: BTreeMap<String, BTreeMap<i64, String>>,
}

pub fn ipow(mut base: i64, mut exp: i64) -> i64 {
    let mut r: i64 = 1;
    while exp != 0 {
        if exp & 1 != 0 {
            r = r.wrapping_mul(base);
        }
        exp >>= 1;
        base = base.wrapping_mul(base);
    }
    r
}

pub fn binop(op: &str, a: i64, b: i64) -> Result<i64, ArithErr> {
    Ok(match op {
        "**" => {
            if b < 0 {
                return Err(ArithErr::NegExp);
            }
            ipow(a, b)
        }
        "*" => a.wrapping_mul(b),
        "/" => {
            if b == 0 {
                return Err(ArithErr::DivZero);
            }
            a.wrapping_div(b)
        }
        "%" => {
            if b == 0 {
                return Err(ArithErr::DivZero);
            }
            a.wrapping_rem(b)
        }
        "+" => a.wrapping_add(b),
        "-" => a.wrapping_sub(b),
        "<<" => a.wrapping_shl(b as u32),
        ">>" => a.wrapping_shr(b as u32),
        "<" => (a < b) as i64,
        "<=" => (a <= b) as i64,
        ">" => (a > b) as i64,
        ">=" => (a >= b) as i64,
        "==" => (a == b) as i64,
        "!=" => (a != b) as i64,
        "&" => a & b,
        "^" => a ^ b,
        "|" => a | b,
        _ => return Err(ArithErr::Other(format!("unknown operator {op}"))),
    })
}

/// parse a literal / simple variable content the way bash's expression evaluator would
/// (only the forms the generators produce: literals, a variable name, or `lit op lit`)
pub fn parse_literal(t: &str) -> Option<i64> {
    let t = t.trim();
    if t.is_empty() {
        return Some(0);
    }
    if let Some((b, d)) = t.split_once('#') {
        let base: u32 = b.parse().ok()?;
        if !(2..=64).contains(&base) {
            return None;
        }
        let mut v: i64 = 0;
        for c in d.chars() {
            let dv = match c {
                '0'..='9' => c as u32 - '0' as u32,
                'a'..='z' => c as u32 - 'a' as u32 + 10,
                'A'..='Z' => {
                    if base <= 36 {
                        c as u32 - 'A' as u32 + 10
                    } else {
                        c as u32 - 'A' as u32 + 36
                    }
                }
                '@' => 62,
                '_' => 63,
                _ => return None,
            };
            if dv >= base {
                return None;
            }
            v = v.wrapping_mul(base as i64).wrapping_add(dv as i64);
        }
        return Some(v);
    }
    let (digits, base) = if let Some(h) = t.strip_prefix("0x").or_else(|| t.strip_prefix("0X")) {
        (h, 16)
    } else if t.len() > 1 && t.starts_with('0') {
        (&t[1..], 8)
    } else {
        (t, 10)
    };
    if digits.is_empty() {
        return if base == 16 { Some(0) } else { None };
    }
    let mut v: i64 = 0;
    for c in digits.chars() {
        let dv = c.to_digit(base)?;
        v = v.wrapping_mul(base as i64).wrapping_add(dv as i64);
    }
    Some(v)
}

pub struct Evaluator {
    pub env: Env,
    depth: u32,
}

impl Evaluator {
    pub fn new(env: Env) -> Evaluator {
        Evaluator { env, depth: 0 }
    }

    /// value of a variable's *content* (recursive evaluation)
    fn content_value(&mut self, content: &str) -> Result<i64, ArithErr> {
        let c = content.trim();
        if c.is_empty() {
            return Ok(0);
        }
        if let Some(v) = parse_literal(c) {
            if c.chars().next().map(|x| x.is_ascii_digit()).unwrap_or(false) {
                return Ok(v);
            }
        }
        // negative decimal
        if let Some(rest) = c.strip_prefix('-') {
            if let Some(v) = parse_literal(rest) {
                if rest.chars().next().map(|x| x.is_ascii_digit()).unwrap_or(false) {
                    return Ok(v.wrapping_neg());
                }
            }
        }
        // a variable name
        if c.chars().all(|x| x.is_ascii_alphanumeric() || x == '_') && !c.chars().next().unwrap().is_ascii_digit() {
            self.depth += 1;
            if self.depth > 32 {
                return Err(ArithErr::Other("recursion".into()));
            }
            let r = self.get(&Lv::Var(c.to_string()));
            self.depth -= 1;
            return r;
        }
        // `x op y` with simple operands (the generators only produce this shape)
        for op in ["+", "*", "-"] {
            if let Some((l, r)) = c.split_once(op) {
                if !l.is_empty() {
                    let a = self.content_value(l)?;
                    let b = self.content_value(r)?;
                    return binop(op, a, b);
                }
            }
        }
        Err(ArithErr::Other(format!("cannot evaluate content {c:?}")))
    }

    fn index(&mut self, i: &A) -> Result<i64, ArithErr> {
        self.eval(i)
    }

    /// negative subscripts of indexed arrays count back from the highest index + 1
    fn norm_index(&self, name: &str, idx: i64) -> Result<i64, ArithErr> {
        if idx >= 0 {
            return Ok(idx);
        }
        let top = self.env.arrays.get(name).and_then(|a| a.keys().next_back().copied()).map(|m| m + 1).unwrap_or(0);
        let r = top + idx;
        if r < 0 {
            Err(ArithErr::Other("bad array subscript".into()))
        } else {
            Ok(r)
        }
    }

    fn get(&mut self, lv: &Lv) -> Result<i64, ArithErr> {
        match lv {
            Lv::Var(n) => {
                if let Some(arr) = self.env.arrays.get(n) {
                    let c = arr.get(&0).cloned().unwrap_or_default();
                    return self.content_value(&c);
                }
                let c = self.env.scalars.get(n).cloned().unwrap_or_default();
                self.content_value(&c)
            }
            Lv::Elem(n, i) => {
                let idx = self.index(i)?;
                let idx = self.norm_index(n, idx)?;
                let c = self.env.arrays.get(n).and_then(|a| a.get(&idx)).cloned().unwrap_or_default();
                self.content_value(&c)
            }
        }
    }

    /// returns a resolved slot so that the subscript is evaluated exactly once
    fn resolve(&mut self, lv: &Lv) -> Result<(String, Option<i64>), ArithErr> {
        match lv {
            Lv::Var(n) => Ok((n.clone(), if self.env.arrays.contains_key(n) { Some(0) } else { None })),
            Lv::Elem(n, i) => {
                let idx = self.index(i)?;
                let idx = self.norm_index(n, idx)?;
                Ok((n.clone(), Some(idx)))
            }
        }
    }

    fn read_slot(&mut self, slot: &(String, Option<i64>)) -> Result<i64, ArithErr> {
        let c = match slot.1 {
            None => self.env.scalars.get(&slot.0).cloned().unwrap_or_default(),
            Some(i) => self.env.arrays.get(&slot.0).and_then(|a| a.get(&i)).cloned().unwrap_or_default(),
        };
        self.content_value(&c)
    }

    fn write_slot(&mut self, slot: &(String, Option<i64>), v: i64) {
        match slot.1 {
            None => {
                self.env.scalars.insert(slot.0.clone(), v.to_string());
            }
            Some(i) => {
                self.env.arrays.entry(slot.0.clone()).or_default().insert(i, v.to_string());
            }
        }
    }

    pub fn eval(&mut self, e: &A) -> Result<i64, ArithErr> {
        match e {
            A::Num(_, v) => Ok(*v),
            A::Get(lv) => self.get(lv),
            A::Un(op, x) => {
                let v = self.eval(x)?;
                Ok(match op.as_str() {
                    "-" => v.wrapping_neg(),
                    "+" => v,
                    "!" => (v == 0) as i64,
                    "~" => !v,
                    _ => return Err(ArithErr::Other("unop".into())),
                })
            }
            A::Bin(op, l, r) => match op.as_str() {
                "&&" => {
                    let a = self.eval(l)?;
                    if a == 0 {
                        return Ok(0);
                    }
                    Ok((self.eval(r)? != 0) as i64)
                }
                "||" => {
                    let a = self.eval(l)?;
                    if a != 0 {
                        return Ok(1);
                    }
                    Ok((self.eval(r)? != 0) as i64)
                }
                _ => {
                    let a = self.eval(l)?;
                    let b = self.eval(r)?;
                    binop(op, a, b)
                }
            },
            A::Assign(op, lv, rhs) => {
                let slot = self.resolve(lv)?;
                if op == "=" {
                    let v = self.eval(rhs)?;
                    self.write_slot(&slot, v);
                    Ok(v)
                } else {
                    // bash reads the left value before evaluating the right-hand side
                    let cur = self.read_slot(&slot)?;
                    let v = self.eval(rhs)?;
                    let bop = &op[..op.len() - 1];
                    let nv = binop(bop, cur, v)?;
                    self.write_slot(&slot, nv);
                    Ok(nv)
                }
            }
            A::PreInc(lv) | A::PreDec(lv) | A::PostInc(lv) | A::PostDec(lv) => {
                let slot = self.resolve(lv)?;
                let cur = self.read_slot(&slot)?;
                let d = if matches!(e, A::PreInc(_) | A::PostInc(_)) { 1 } else { -1 };
                let nv = cur.wrapping_add(d);
                self.write_slot(&slot, nv);
                Ok(if matches!(e, A::PreInc(_) | A::PreDec(_)) { nv } else { cur })
            }
            A::Cond(c, t, f) => {
                if self.eval(c)? != 0 {
                    self.eval(t)
                } else {
                    self.eval(f)
                }
            }
            A::Comma(l, r) => {
                self.eval(l)?;
                self.eval(r)
            }
        }
    }
}

// ---------------------------------------------------------------------------------------------
// generation
// ---------------------------------------------------------------------------------------------

/// standard environment of the arithmetic checks
pub fn std_env() -> Env {
    let mut e = Env::default();
    for (k, v) in [("x", "5"), ("y", "-3"), ("z", "0"), ("e", ""), ("n", "x"), ("m", "n"), ("w", "x+1"), ("big", "9223372036854775807"), ("i", "1"), ("o", "010"), ("h", "0x1f"), ("bb", "2#101"), ("no", "-017")] {
        e.scalars.insert(k.to_string(), v.to_string());
    }
    let mut a = BTreeMap::new();
    a.insert(0, "3".to_string());
    a.insert(1, "5".to_string());
    a.insert(2, "7".to_string());
    e.arrays.insert("a".to_string(), a);
    e
}

/// shell text that sets up std_env (u stays unset)
pub const STD_ENV_SH: &str = "x=5; y=-3; z=0; e=; n=x; m=n; w=x+1; big=9223372036854775807; i=1; o=010; h=0x1f; bb=2#101; no=-017; a=(3 5 7); unset u\n";
pub const TRACKED_SCALARS: &[&str] = &["x", "y", "z", "e", "n", "m", "w", "big", "i", "u"];

fn lit(text: &str) -> A {
    A::Num(text.to_string(), parse_literal(text).expect("literal"))
}

pub fn literal() -> BoxedStrategy<A> {
    let fixed: Vec<&'static str> = vec![
        "0", "1", "2", "3", "7", "10", "63", "64", "255", "2147483647", "2147483648", "4294967295", "4294967296", "9223372036854775807", "010", "0777", "017", "0x10", "0xff", "0X7f",
        "0x7fffffffffffffff", "0x8000000000000000", "0xffffffffffffffff", "01777777777777777777777", "2#101", "8#17", "16#ff", "16#FF", "36#z", "36#Z", "64#_", "64#@", "64#a", "64#A", "10#09", "2#0",
        "9223372036854775808", "62#Zz",
    ];
    prop_oneof![
        8 => proptest::sample::select(fixed).prop_map(lit),
        2 => (0i64..100).prop_map(|v| A::Num(v.to_string(), v)),
    ]
    .boxed()
}

fn small_index() -> BoxedStrategy<A> {
    prop_oneof![
        3 => (0i64..3).prop_map(|v| A::Num(v.to_string(), v)),
        1 => Just(A::Get(Lv::Var("i".into()))),
        1 => Just(A::Bin("-".into(), Box::new(A::Get(Lv::Var("i".into()))), Box::new(A::Num("1".into(), 1)))),
        1 => Just(A::Get(Lv::Var("z".into()))),
    ]
    .boxed()
}

fn lvalue() -> BoxedStrategy<Lv> {
    prop_oneof![
        6 => proptest::sample::select(vec!["x", "y", "z", "e", "u", "i"]).prop_map(|n| Lv::Var(n.to_string())),
        2 => small_index().prop_map(|i| Lv::Elem("a".into(), Box::new(i))),
    ]
    .boxed()
}

fn rvalue_var() -> BoxedStrategy<A> {
    prop_oneof![
        6 => proptest::sample::select(vec!["x", "y", "z", "e", "u", "n", "m", "w", "big", "i", "o", "h", "bb", "no"]).prop_map(|n| A::Get(Lv::Var(n.to_string()))),
        2 => small_index().prop_map(|i| A::Get(Lv::Elem("a".into(), Box::new(i)))),
    ]
    .boxed()
}

pub fn expr(depth: u32) -> BoxedStrategy<A> {
    let leaf = prop_oneof![5 => literal(), 4 => rvalue_var()];
    leaf.prop_recursive(depth, 40, 3, |inner| {
        prop_oneof![
            12 => (proptest::sample::select(BINOPS.to_vec()), inner.clone(), inner.clone()).prop_map(|(op, l, r)| A::Bin(op.to_string(), Box::new(l), Box::new(r))),
            3 => (proptest::sample::select(UNOPS.to_vec()), inner.clone()).prop_map(|(op, e)| A::Un(op.to_string(), Box::new(e))),
            3 => (proptest::sample::select(ASSIGNOPS.to_vec()), lvalue(), inner.clone()).prop_map(|(op, lv, e)| A::Assign(op.to_string(), lv, Box::new(e))),
            1 => lvalue().prop_map(A::PreInc),
            1 => lvalue().prop_map(A::PreDec),
            1 => lvalue().prop_map(A::PostInc),
            1 => lvalue().prop_map(A::PostDec),
            2 => (inner.clone(), inner.clone(), inner.clone()).prop_map(|(c, t, e)| A::Cond(Box::new(c), Box::new(t), Box::new(e))),
            1 => (inner.clone(), inner.clone()).prop_map(|(l, r)| A::Comma(Box::new(l), Box::new(r))),
        ]
    })
    .boxed()
}

// ---------------------------------------------------------------------------------------------
// analysis
// ---------------------------------------------------------------------------------------------

#[derive(Default, Debug)]
pub struct AFacts {
    pub ops: std::collections::BTreeSet<String>,
    /// adjacent precedence levels combined without parentheses in the minimal rendering
    pub mixed_prec: bool,
    pub boundary: bool,
    pub side_effect_under_short_circuit: bool,
    pub side_effects: u32,
    pub lit_forms: std::collections::BTreeSet<&'static str>,
    pub size: u32,
    /// literal whose text denotes a value > i64::MAX
    pub overflowing_literal: bool,
    /// same slot written twice or read and written in one expression (order sensitive)
    pub assign_in_rhs_of_same: bool,
}

fn has_effect(e: &A) -> bool {
    match e {
        A::Assign(..) | A::PreInc(_) | A::PreDec(_) | A::PostInc(_) | A::PostDec(_) => true,
        A::Num(..) | A::Get(_) => false,
        A::Un(_, x) => has_effect(x),
        A::Bin(_, l, r) | A::Comma(l, r) => has_effect(l) || has_effect(r),
        A::Cond(c, t, f) => has_effect(c) || has_effect(t) || has_effect(f),
    }
}

pub fn facts(e: &A) -> AFacts {
    let mut f = AFacts::default();
    walk(e, &mut f);
    f
}

fn lit_form(t: &str) -> &'static str {
    if t.contains('#') {
        "base#"
    } else if t.starts_with("0x") || t.starts_with("0X") {
        "hex"
    } else if t.len() > 1 && t.starts_with('0') {
        "octal"
    } else {
        "decimal"
    }
}

fn walk(e: &A, f: &mut AFacts) {
    f.size += 1;
    match e {
        A::Num(t, v) => {
            f.lit_forms.insert(lit_form(t));
            if *v == i64::MAX || *v == i64::MIN || *v == 2147483647 || *v == 2147483648 || *v == 4294967295 || *v == 4294967296 || *v == -1 {
                f.boundary = true;
            }
            if ["9223372036854775808", "0x8000000000000000", "0xffffffffffffffff", "01777777777777777777777"].contains(&t.as_str()) {
                f.overflowing_literal = true;
                f.boundary = true;
            }
        }
        A::Get(lv) => {
            if let Lv::Elem(_, i) = lv {
                walk(i, f);
            }
            if matches!(lv, Lv::Var(n) if n == "big") {
                f.boundary = true;
            }
        }
        A::Un(op, x) => {
            f.ops.insert(format!("u{op}"));
            walk(x, f);
        }
        A::Bin(op, l, r) => {
            f.ops.insert(op.clone());
            for side in [l, r] {
                if let A::Bin(op2, ..) = &**side {
                    if prec(op2) != prec(op) {
                        f.mixed_prec = true;
                    }
                }
                if matches!(**side, A::Un(..)) {
                    f.mixed_prec = true;
                }
            }
            if (op == "&&" || op == "||") && has_effect(r) {
                f.side_effect_under_short_circuit = true;
            }
            walk(l, f);
            walk(r, f);
        }
        A::Assign(op, lv, x) => {
            f.ops.insert(op.clone());
            f.side_effects += 1;
            if let Lv::Elem(_, i) = lv {
                walk(i, f);
            }
            // compound assignment to an array element whose right-hand side has side effects:
            // the subscript's value may change between the read and the write
            if op != "=" && matches!(lv, Lv::Elem(..)) && has_effect(x) {
                f.assign_in_rhs_of_same = true;
            }
            walk(x, f);
        }
        A::PreInc(lv) | A::PreDec(lv) | A::PostInc(lv) | A::PostDec(lv) => {
            f.ops.insert(
                match e {
                    A::PreInc(_) => "++x",
                    A::PreDec(_) => "--x",
                    A::PostInc(_) => "x++",
                    _ => "x--",
                }
                .to_string(),
            );
            f.side_effects += 1;
            if let Lv::Elem(_, i) = lv {
                walk(i, f);
            }
        }
        A::Cond(c, t, x) => {
            f.ops.insert("?:".into());
            if has_effect(t) || has_effect(x) {
                f.side_effect_under_short_circuit = true;
            }
            walk(c, f);
            walk(t, f);
            walk(x, f);
        }
        A::Comma(l, r) => {
            f.ops.insert(",".into());
            walk(l, f);
            walk(r, f);
        }
    }
}

/// one-step structural simplifications (for shrinking)
pub fn shrink_candidates(e: &A) -> Vec<A> {
    let mut out = vec![];
    let kids: Vec<&A> = match e {
        A::Un(_, x) => vec![x],
        A::Bin(_, l, r) | A::Comma(l, r) => vec![l, r],
        A::Assign(_, _, x) => vec![x],
        A::Cond(c, t, f) => vec![c, t, f],
        _ => vec![],
    };
    for k in &kids {
        out.push((*k).clone());
    }
    match e {
        A::Un(op, x) => {
            for v in shrink_candidates(x) {
                out.push(A::Un(op.clone(), Box::new(v)));
            }
        }
        A::Bin(op, l, r) => {
            for v in shrink_candidates(l) {
                out.push(A::Bin(op.clone(), Box::new(v), r.clone()));
            }
            for v in shrink_candidates(r) {
                out.push(A::Bin(op.clone(), l.clone(), Box::new(v)));
            }
        }
        A::Comma(l, r) => {
            for v in shrink_candidates(l) {
                out.push(A::Comma(Box::new(v), r.clone()));
            }
            for v in shrink_candidates(r) {
                out.push(A::Comma(l.clone(), Box::new(v)));
            }
        }
        A::Assign(op, lv, x) => {
            for v in shrink_candidates(x) {
                out.push(A::Assign(op.clone(), lv.clone(), Box::new(v)));
            }
        }
        A::Cond(c, t, f) => {
            for v in shrink_candidates(c) {
                out.push(A::Cond(Box::new(v), t.clone(), f.clone()));
            }
            for v in shrink_candidates(t) {
                out.push(A::Cond(c.clone(), Box::new(v), f.clone()));
            }
            for v in shrink_candidates(f) {
                out.push(A::Cond(c.clone(), t.clone(), Box::new(v)));
            }
        }
        A::Num(t, v) => {
            if t != "1" && t != "0" {
                out.push(A::Num("1".into(), 1));
                if *v >= 0 && t != &v.to_string() {
                    out.push(A::Num(v.to_string(), *v));
                }
            }
        }
        A::Get(Lv::Elem(n, i)) => {
            for v in shrink_candidates(i) {
                out.push(A::Get(Lv::Elem(n.clone(), Box::new(v))));
            }
            out.push(A::Num("1".into(), 1));
        }
        A::Get(_) => out.push(A::Num("1".into(), 1)),
        _ => {}
    }
    out
}

#[cfg(test)]
mod tests {
    use super::*;
    #[test]
    fn render_and_eval() {
        let e = A::Bin("*".into(), Box::new(A::Bin("+".into(), Box::new(lit("1")), Box::new(lit("2")))), Box::new(lit("3")));
        assert_eq!(e.render_min(), "(1 + 2) * 3");
        let mut ev = Evaluator::new(std_env());
        assert_eq!(ev.eval(&e), Ok(9));
        let p = A::Bin("**".into(), Box::new(lit("2")), Box::new(A::Bin("**".into(), Box::new(lit("3")), Box::new(lit("2")))));
        assert_eq!(p.render_min(), "2 ** 3 ** 2");
        assert_eq!(Evaluator::new(std_env()).eval(&p), Ok(512));
        assert_eq!(parse_literal("64#_"), Some(63));
        assert_eq!(parse_literal("0x10"), Some(16));
        assert_eq!(parse_literal("010"), Some(8));
        assert_eq!(Evaluator::new(std_env()).eval(&A::Get(Lv::Var("m".into()))), Ok(5));
        assert_eq!(Evaluator::new(std_env()).eval(&A::Get(Lv::Var("w".into()))), Ok(6));
    }
}

//! The repository's own test scripts (the `stdin: |` blocks of brush-shell/tests/cases/**/*.yaml),
//! read from /repo's working tree at run time; used as seeds for mutation.

use std::path::{Path, PathBuf};

fn repo_root() -> PathBuf {
    std::env::var_os("BVERIF_REPO").map(PathBuf::from).unwrap_or_else(|| PathBuf::from("/repo"))
}

fn walk(dir: &Path, out: &mut Vec<PathBuf>) {
    if let Ok(rd) = std::fs::read_dir(dir) {
        let mut entries: Vec<PathBuf> = rd.flatten().map(|e| e.path()).collect();
        entries.sort();
        for p in entries {
            if p.is_dir() {
                walk(&p, out);
            } else if p.extension().map(|e| e == "yaml").unwrap_or(false) {
                out.push(p);
            }
        }
    }
}

/// block scalars introduced by `stdin: |` (indentation stripped)
pub fn scripts_in(text: &str) -> Vec<String> {
    let lines: Vec<&str> = text.lines().collect();
    let mut out = vec![];
    let mut i = 0;
    while i < lines.len() {
        let l = lines[i];
        let t = l.trim_start();
        if t.starts_with("stdin: |") {
            let base = l.len() - t.len();
            let mut body = String::new();
            let mut indent: Option<usize> = None;
            i += 1;
            while i < lines.len() {
                let b = lines[i];
                if b.trim().is_empty() {
                    body.push('\n');
                    i += 1;
                    continue;
                }
                let ind = b.len() - b.trim_start().len();
                if ind <= base {
                    break;
                }
                let ind0 = *indent.get_or_insert(ind);
                body.push_str(&b[ind0.min(ind)..]);
                body.push('\n');
                i += 1;
            }
            let body = body.trim_end_matches('\n').to_string() + "\n";
            if body.len() > 1 {
                out.push(body);
            }
            continue;
        }
        i += 1;
    }
    out
}

/// all scripts, in a stable order
pub fn load() -> Vec<String> {
    let mut files = vec![];
    walk(&repo_root().join("brush-shell/tests/cases"), &mut files);
    let mut out = vec![];
    for f in files {
        if let Ok(t) = std::fs::read_to_string(&f) {
            out.extend(scripts_in(&t));
        }
    }
    out
}

/// texts that must never be executed by a check, whatever mutation produced them
pub fn dangerous(text: &str) -> bool {
    const WORDS: &[&str] = &["kill", "pkill", "reboot", "shutdown", "mkfs", "/etc", "/root", "/verif", "/repo", "/usr", "/bin/", "/sbin", "/dev/sd", "/dev/vd", "/proc/sys", "/sys/", "sudo", "chown", "mount", ":(){", "rm -rf /", "dd ", "nc ", "curl", "wget", "ssh"];
    WORDS.iter().any(|w| text.contains(w))
}

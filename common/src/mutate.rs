//! Text mutation and boundary-value material shared by the crash-freedom layers (C01).

use proptest::prelude::*;
use serde::{Deserialize, Serialize};

pub const BOUNDARY_NUMBERS: &[&str] = &[
    "0", "-1", "1", "255", "256", "2147483647", "2147483648", "-2147483649", "4294967296", "9223372036854775807", "9223372036854775808", "-9223372036854775808", "-9223372036854775809", "18446744073709551615", "18446744073709551616",
    "99999999999999999999", "-99999999999999999999", "0x7fffffffffffffff", "0xffffffffffffffffff", "077777777777777777777777", "64#zzzzzzzzzzzz", "65#1", "1#1", "0#", "1e9", "1.5", "--1", "+-+1", "08", "0x", "١٢٣",
];

pub const FRAGMENTS: &[&str] = &[
    "echo", "if", "then", "elif", "else", "fi", "for", "in", "do", "done", "case", "esac", "while", "until", "function", "select", "time", "coproc", "!", "{", "}", "(", ")", "((", "))", "[[", "]]", "x=1", "a b", "$x", "${x}",
    "${x:-y}", "${x:=", "${x//a/b}", "${x:1:2}", "${x@Q}", "${!x}", "${#x}", "${x[@]}", "${x[", "$(", "$((", "`", "\\`", "'", "\"", "\\", "\\\n", "\n", ";", ";;", ";&", ";;&", "&&", "||", "|", "|&", "&", "<<EOF\n", "<<-E\n", "<<\"\"", "<<''", "EOF\n", "E\n",
    "<<<", ">", ">>", ">|", "<>", "2>&1", ">&-", "<(", ">(", "#c", " ", "  ", "é", "€", "日本", "\u{1F600}", "~", "~/x", "~+", "*", "?", "[a-z]", "[!", "[[:alpha:]]", "@(", "!(", "+(a|b)", "-n", "--", "=", "==", "=~", "$'a\\n'",
    "$'\\x", "$'\\u{", "$\"q\"", "f()", "$", "${", "${#", "$((1+", "a\\", "{a,b}", "{1..3}", "{a..z..2}", "{1..", "x[1]=", "x=(", "x+=(", "[k]=v", "1>", "99>", "&>", "&>>", "\t", "\r", "\u{1}", "\u{7f}", "\u{0}",
];

pub const TEMPLATES: &[&str] = &[
    "echo $(( N ))", "echo $(( N + N ))", "echo $(( N * N ))", "echo $(( N / N ))", "echo $(( N % N ))", "echo $(( N ** N ))", "echo $(( N << N ))", "echo $(( N >> N ))", "(( x = N, x++ )); echo $x", "let 'x = N - N'; echo $x",
    "v=abcdef; echo \"${v:N:N}\"", "v=abcdef; echo \"${v:N}\"", "a=(1 2 3); echo \"${a[@]:N:N}\"", "a=(1 2 3); echo \"${a[N]}\"", "a=(); a[N]=x; echo \"${#a[@]}\"", "set -- a b c; echo \"${@:N:N}\"", "set -- a b; shift N; echo $#",
    "echo {N..N}", "echo {N..N..N}", "echo {a..z..N}", "echo {z..a..N}", "echo ~N", "echo hi N>out; cat out", "echo hi N>&1", "exec N<&-", "printf '%Nd\\n' 1", "printf '%.Ns\\n' abc", "printf '%*d\\n' N 1", "printf '%d\\n' N",
    "for ((i=N; i<N; i++)); do echo $i; break; done", "f() { return N; }; f; echo $?", "( exit N ); echo $?", "for i in 1 2 3; do break N; done; echo ok", "for i in 1; do continue N; done; echo ok", "read -n N x <<< abc; echo \"$x\"",
    "read -t N x <<< abc; echo \"$x\"", "echo $(( N#1 ))", "echo $(( 16#N ))", "declare -i z=N; echo $z", "x=N; echo $(( x ))", "a=\"1+b[a+1]\"; echo $(( a ))", "x=x; echo $(( x ))", "echo ${v:-N}", "umask N; umask", "ulimit -n N; ulimit -n",
    "cd -N", "pushd +N", "popd -N", "dirs +N", "history N", "fc -l N", "wait N", "getopts a o -a; OPTIND=N; getopts a o -a", "echo \"${v@N}\"", "echo \"${!N}\"", "echo $N ${N} ${#N}", "[[ N -eq N ]]; echo $?", "[ N -lt N ]; echo $?", "test N -gt N; echo $?",
    "case N in N) echo m;; esac", "[[ abc =~ N ]]; echo $?", "[[ abc == N ]]; echo $?", "echo ${v//N/N}", "echo ${v/#N}", "echo ${v%%N}", "printf '%q\\n' N", "echo $'\\xN' | od -c | head -1", "echo $'\\uN' | od -c | head -1", "echo -e '\\0N'",
    "x=${PS1@P}; PS1='N'; echo \"${PS1@P}\"", "PS1='\\D{N}'; echo \"${PS1@P}\"", "PS1='\\D{%N}'; echo \"${PS1@P}\"", "PS1='\\[\\e]0;N\\a\\]\\N'; echo \"${PS1@P}\"", "PS1='\\u@\\h:\\w\\$ \\!\\#\\j\\l\\s\\t\\T\\@\\A\\v\\V\\W N'; echo \"${PS1@P}\"", "PS1='\\N'; echo \"${PS1@P}\"", "PS4='N'; set -x; :", "IFS=N; set -- a b; echo \"$*\"", "OPTIND=N; getopts a o", "RANDOM=N; echo ok", "SECONDS=N; echo ok", "LINENO=N; echo $LINENO", "BASH_ARGV0=N",
    "v='N'; echo \"${v^} ${v,} ${v^^} ${v,,} ${v~} ${v~~}\"", "v='N'; echo \"${v@U} ${v@u} ${v@L} ${v@Q} ${v@E} ${v@K}\"", "v='N'; echo \"${v^N} ${v,,N} ${#v} ${v:1} ${v: -1}\"", "declare -u z='N'; declare -l y='N'; declare -c w='N'; echo \"$z $y $w\"", "a=('N' 'N'); echo \"${a[@]^} ${a[@],} ${a[*]@u}\"", "set -- 'N'; echo \"${@^} ${*,} ${1^^}\"",
    "trap 'echo t' N", "trap - N", "enable -n N", "alias N=x", "unset N", "declare -n r=N; echo $r", "declare -A m; m[N]=1; echo ${m[N]}", "mapfile -n N a <<< x", "mapfile -s N a <<< x", "mapfile -O N a <<< x", "echo ${a[@]:N}", "echo ${x:N:N:N}",
    "complete -W 'N' c; compgen -W 'N' -- N", "compgen -A function N", "compgen -G 'N'", "printf -v 'a[N]' x", "printf '%(N)T\\n' N", "printf '%b\\n' 'N'", "echo \"$(( N ? N : N ))\"", "echo $(( N , N ))", "echo $(( -N ))", "echo $(( ~N ))", "echo $(( !N ))",
];

/// operands substituted for `N` in templates besides the boundary numbers
pub const OPERANDS: &[&str] = &["ßx", "ıx", "ſ", "ﬁ", "İ", "\u{212a}", "ẞ", "ǅ", "ŉa", "Ⱥ", "ɐ", "%Q", "%", "%5", "%E", "%O", "%:z", "%#Z", "%-", "%Y%", "", " ", "x", "*", "?", "[", "]", "[a", "(", ")", "\\", "'", "\"", "$", "$x", "${", "$(", "`", "a b", "é", "\u{1F600}", "-", "--", "-n", "~", "#", ";", "|", "&", "\n", "@", "!", "%", "^", "+(", "a{", "{,}", "//", "..", "1..2"];

#[derive(Clone, Debug, Serialize, Deserialize, PartialEq)]
pub enum Edit {
    DeleteChars(u16, u8),
    DupSpan(u16, u8),
    InsertFrag(u16, u8),
    InsertNumber(u16, u8),
    ReplaceNumber(u8, u8),
    Truncate(u16),
    DeleteLine(u8),
    SwapLines(u8, u8),
    Repeat(u16, u8, u8),
}

fn at(len: usize, pos: u16) -> usize {
    ((pos as usize) * (len + 1)) >> 16
}

pub fn apply(base: &str, edits: &[Edit]) -> String {
    let mut cs: Vec<char> = base.chars().collect();
    for e in edits {
        match e {
            Edit::DeleteChars(p, n) => {
                let i = at(cs.len(), *p).min(cs.len());
                let j = (i + *n as usize % 8 + 1).min(cs.len());
                cs.drain(i..j);
            }
            Edit::DupSpan(p, n) => {
                let i = at(cs.len(), *p).min(cs.len());
                let j = (i + *n as usize % 24 + 1).min(cs.len());
                let span: Vec<char> = cs[i..j].to_vec();
                let mut k = j;
                for c in span {
                    cs.insert(k, c);
                    k += 1;
                }
            }
            Edit::InsertFrag(p, f) => {
                let i = at(cs.len(), *p).min(cs.len());
                let frag = FRAGMENTS[*f as usize % FRAGMENTS.len()];
                let mut k = i;
                for c in frag.chars() {
                    cs.insert(k, c);
                    k += 1;
                }
            }
            Edit::InsertNumber(p, f) => {
                let i = at(cs.len(), *p).min(cs.len());
                let frag = BOUNDARY_NUMBERS[*f as usize % BOUNDARY_NUMBERS.len()];
                let mut k = i;
                for c in frag.chars() {
                    cs.insert(k, c);
                    k += 1;
                }
            }
            Edit::ReplaceNumber(nth, f) => {
                // replace the nth run of digits
                let mut runs = vec![];
                let mut i = 0;
                while i < cs.len() {
                    if cs[i].is_ascii_digit() {
                        let s = i;
                        while i < cs.len() && cs[i].is_ascii_digit() {
                            i += 1;
                        }
                        runs.push((s, i));
                    } else {
                        i += 1;
                    }
                }
                if !runs.is_empty() {
                    let (s, e) = runs[*nth as usize % runs.len()];
                    let rep: Vec<char> = BOUNDARY_NUMBERS[*f as usize % BOUNDARY_NUMBERS.len()].chars().collect();
                    cs.splice(s..e, rep);
                }
            }
            Edit::Truncate(p) => {
                let i = at(cs.len(), *p).min(cs.len());
                cs.truncate(i);
            }
            Edit::DeleteLine(n) => {
                let text: String = cs.iter().collect();
                let mut lines: Vec<&str> = text.split_inclusive('\n').collect();
                if lines.len() > 1 {
                    lines.remove(*n as usize % lines.len());
                }
                cs = lines.concat().chars().collect();
            }
            Edit::SwapLines(a, b) => {
                let text: String = cs.iter().collect();
                let mut lines: Vec<&str> = text.split_inclusive('\n').collect();
                if lines.len() > 1 {
                    let (x, y) = (*a as usize % lines.len(), *b as usize % lines.len());
                    lines.swap(x, y);
                }
                cs = lines.concat().chars().collect();
            }
            Edit::Repeat(p, n, times) => {
                // deep nesting / long repetition of a short span
                let i = at(cs.len(), *p).min(cs.len());
                let j = (i + *n as usize % 6 + 1).min(cs.len());
                let span: Vec<char> = cs[i..j].to_vec();
                let t = [2usize, 8, 64, 65][*times as usize % 4];
                let mut k = j;
                for _ in 0..t {
                    for c in &span {
                        cs.insert(k, *c);
                        k += 1;
                    }
                }
            }
        }
    }
    cs.into_iter().collect()
}

pub fn edit_strategy() -> BoxedStrategy<Edit> {
    prop_oneof![
        3 => (any::<u16>(), any::<u8>()).prop_map(|(p, n)| Edit::DeleteChars(p, n)),
        2 => (any::<u16>(), any::<u8>()).prop_map(|(p, n)| Edit::DupSpan(p, n)),
        4 => (any::<u16>(), any::<u8>()).prop_map(|(p, n)| Edit::InsertFrag(p, n)),
        2 => (any::<u16>(), any::<u8>()).prop_map(|(p, n)| Edit::InsertNumber(p, n)),
        4 => (any::<u8>(), any::<u8>()).prop_map(|(p, n)| Edit::ReplaceNumber(p, n)),
        1 => any::<u16>().prop_map(Edit::Truncate),
        1 => any::<u8>().prop_map(Edit::DeleteLine),
        1 => (any::<u8>(), any::<u8>()).prop_map(|(a, b)| Edit::SwapLines(a, b)),
        1 => (any::<u16>(), any::<u8>(), any::<u8>()).prop_map(|(p, n, t)| Edit::Repeat(p, n, t)),
    ]
    .boxed()
}

/// a template with every `N` replaced by an operand
pub fn template_strategy() -> BoxedStrategy<String> {
    // small in-range numbers are frequent, so that one extreme operand meets otherwise valid ones
    let operand = prop_oneof![8 => proptest::sample::select(vec!["0", "1", "-1", "2", "3"]), 9 => proptest::sample::select(BOUNDARY_NUMBERS.to_vec()), 3 => proptest::sample::select(OPERANDS.to_vec())];
    (proptest::sample::select(TEMPLATES.to_vec()), proptest::collection::vec(operand, 3))
        .prop_map(|(t, ops)| {
            let mut out = String::new();
            let mut i = 0;
            let cs: Vec<char> = t.chars().collect();
            let mut k = 0;
            while k < cs.len() {
                // a lone capital N that is not part of a word
                let is_n = cs[k] == 'N' && (k == 0 || !cs[k - 1].is_ascii_alphanumeric()) && (k + 1 >= cs.len() || !cs[k + 1].is_ascii_alphanumeric());
                if is_n {
                    out.push_str(ops[i % ops.len()]);
                    i += 1;
                } else {
                    out.push(cs[k]);
                }
                k += 1;
            }
            out
        })
        .boxed()
}

/// nesting of one construct to a given depth
pub fn nested(depth: usize, kind: usize) -> String {
    let (open, close, inner): (&str, &str, &str) = match kind % 12 {
        0 => ("$( ", " )", "echo x"),
        1 => ("$(( ", " ))", "1"),
        2 => ("{ ", "; }", "echo x"),
        3 => ("( ", " )", "echo x"),
        4 => ("${x:-", "}", "y"),
        5 => ("if true; then ", "; fi", "echo x"),
        6 => ("while true; do ", "; break; done", "echo x"),
        7 => ("case x in x) ", ";; esac", "echo x"),
        8 => ("\"$( echo ", " )\"", "x"),
        9 => ("a[", "]", "0"),
        10 => ("f() { ", "; }; f", "echo x"),
        _ => ("`", "`", "echo x"),
    };
    let mut s = String::new();
    for _ in 0..depth {
        s.push_str(open);
    }
    s.push_str(inner);
    for _ in 0..depth {
        s.push_str(close);
    }
    match kind % 12 {
        1 | 4 | 8 => format!("echo {s}"),
        9 => format!("a=(0); echo $(( {s} ))"),
        11 => {
            // backquotes nest by escaping: only depth 1 is meaningful unescaped
            "echo `echo \\`echo x\\``".to_string()
        }
        _ => s,
    }
}

//! Generic exploration loop: proptest strategies (or plain enumerators) produce cases, a
//! `Layer` judges each with its oracle, failures are shrunk and returned for saving as replays.

use proptest::strategy::{Strategy, ValueTree};
use proptest::test_runner::{Config, RngSeed, TestRunner};
use rayon::prelude::*;
use serde::de::DeserializeOwned;
use serde::{Deserialize, Serialize};
use serde_json::Value;
use std::collections::hash_map::DefaultHasher;
use std::collections::{BTreeMap, BTreeSet, HashSet};
use std::fmt::Debug;
use std::hash::{Hash, Hasher};

#[derive(Clone, Copy, Debug, PartialEq, Eq)]
pub enum Tier {
    Quick,
    Thorough,
}

impl Tier {
    pub fn name(&self) -> &'static str {
        match self {
            Tier::Quick => "quick",
            Tier::Thorough => "thorough",
        }
    }
    /// pick by tier
    pub fn pick<T>(&self, q: T, t: T) -> T {
        match self {
            Tier::Quick => q,
            Tier::Thorough => t,
        }
    }
}

#[derive(Clone, Debug)]
pub enum Outcome {
    Pass,
    /// generated case was not in the domain after all (oracle shell rejects it, …); counted
    Skip(String),
    Fail(String),
    /// could not decide (time-out without hang verdict, …); counted, never a violation
    Inconclusive(String),
}

#[derive(Clone, Debug)]
pub struct Verdict {
    pub outcome: Outcome,
    pub labels: Vec<String>,
    pub nontrivial: bool,
    pub sample: Option<Value>,
    /// number of oracle evaluations this case stands for (batched cases)
    pub weight: u64,
}

impl Verdict {
    pub fn pass(nontrivial: bool) -> Verdict {
        Verdict { outcome: Outcome::Pass, labels: vec![], nontrivial, sample: None, weight: 1 }
    }
    pub fn fail(detail: impl Into<String>) -> Verdict {
        Verdict { outcome: Outcome::Fail(detail.into()), labels: vec![], nontrivial: true, sample: None, weight: 1 }
    }
    pub fn skip(why: impl Into<String>) -> Verdict {
        Verdict { outcome: Outcome::Skip(why.into()), labels: vec![], nontrivial: false, sample: None, weight: 1 }
    }
    pub fn inconclusive(why: impl Into<String>) -> Verdict {
        Verdict { outcome: Outcome::Inconclusive(why.into()), labels: vec![], nontrivial: false, sample: None, weight: 1 }
    }
    pub fn with_labels(mut self, l: Vec<String>) -> Verdict {
        self.labels = l;
        self
    }
    pub fn with_sample(mut self, v: Value) -> Verdict {
        self.sample = Some(v);
        self
    }
    pub fn is_fail(&self) -> bool {
        matches!(self.outcome, Outcome::Fail(_))
    }
}

pub trait Layer: Sync {
    type Case: Clone + Debug + Send + Sync + Serialize + DeserializeOwned;
    fn name(&self) -> String;
    /// known-finding classes this case falls into (structural predicate on the case)
    fn classes(&self, _case: &Self::Case) -> Vec<String> {
        vec![]
    }
    fn eval(&self, case: &Self::Case) -> Verdict;
    /// evaluation used while shrinking (layers whose subject keeps state between cases re-run the
    /// candidate from a clean state here, so that the shrunk case reproduces on its own)
    fn eval_for_shrink(&self, case: &Self::Case) -> Verdict {
        self.eval(case)
    }
    /// human-readable form, also the distinctness key
    fn render(&self, case: &Self::Case) -> String {
        format!("{:?}", case)
    }
    /// structurally smaller variants of a failing case, smallest first (greedy second shrink phase)
    fn shrink_candidates(&self, _case: &Self::Case) -> Vec<Self::Case> {
        vec![]
    }
}

#[derive(Clone, Debug, Serialize, Deserialize, Default)]
pub struct Failure {
    pub layer: String,
    pub case: Value,
    pub rendered: String,
    pub detail: String,
    #[serde(default)]
    pub shrink_steps: u64,
}

#[derive(Clone, Debug, Serialize, Deserialize, Default)]
pub struct LayerReport {
    pub name: String,
    pub generated: u64,
    pub evaluations: u64,
    pub distinct_nontrivial: u64,
    pub skipped: u64,
    pub inconclusive: u64,
    pub excluded: BTreeMap<String, u64>,
    pub labels: BTreeMap<String, u64>,
    pub samples: Vec<Value>,
    pub failures: Vec<Failure>,
    pub exhaustive: bool,
    pub notes: Vec<String>,
    pub skip_reasons: BTreeMap<String, u64>,
}

pub struct Ctx {
    pub prop: String,
    pub tier: Tier,
    pub seed: u64,
    /// active known-finding classes (cases in them are counted and not judged)
    pub active_classes: BTreeSet<String>,
    pub max_failures: usize,
    pub max_shrink_evals: u64,
}

impl Ctx {
    pub fn new(prop: &str, tier: Tier, seed: u64) -> Ctx {
        Ctx {
            prop: prop.to_string(),
            tier,
            seed,
            active_classes: std::env::var("BVERIF_EXCLUDE")
                .ok()
                .map(|s| s.split(',').filter(|x| !x.is_empty()).map(String::from).collect())
                .unwrap_or_default(),
            max_failures: std::env::var("BVERIF_MAXFAIL").ok().and_then(|s| s.parse().ok()).unwrap_or(3),
            max_shrink_evals: 40,
        }
    }
    pub fn excluded_class<L: Layer>(&self, layer: &L, case: &L::Case) -> Option<String> {
        if self.active_classes.is_empty() {
            return None;
        }
        layer.classes(case).into_iter().find(|c| self.active_classes.contains(c))
    }
}

pub fn hash_str(s: &str) -> u64 {
    let mut h = DefaultHasher::new();
    s.hash(&mut h);
    h.finish()
}

struct Acc {
    rep: LayerReport,
    seen: HashSet<u64>,
    sample_every: u64,
}

impl Acc {
    fn new(name: String, expected: u64) -> Acc {
        Acc {
            rep: LayerReport { name, ..Default::default() },
            seen: HashSet::new(),
            sample_every: (expected / 6).max(1),
        }
    }
    fn record(&mut self, rendered: &str, v: &Verdict) {
        self.rep.generated += 1;
        for l in &v.labels {
            *self.rep.labels.entry(l.clone()).or_insert(0) += 1;
        }
        match &v.outcome {
            Outcome::Skip(why) => {
                self.rep.skipped += 1;
                if std::env::var_os("BVERIF_DEBUG").is_some() {
                    eprintln!("SKIP ({why}):\n{rendered}\n----");
                }
                let k: String = why.chars().take(60).collect();
                *self.rep.skip_reasons.entry(k).or_insert(0) += 1;
            }
            Outcome::Inconclusive(why) => {
                self.rep.inconclusive += 1;
                if std::env::var_os("BVERIF_DEBUG").is_some() {
                    eprintln!("INCONCLUSIVE ({why}):\n{rendered}");
                }
                let k: String = format!("inconclusive: {}", why.chars().take(60).collect::<String>());
                *self.rep.skip_reasons.entry(k).or_insert(0) += 1;
            }
            Outcome::Pass | Outcome::Fail(_) => {
                self.rep.evaluations += v.weight;
                if v.nontrivial && self.seen.insert(hash_str(rendered)) {
                    self.rep.distinct_nontrivial += 1;
                }
                let idx = self.rep.generated;
                if matches!(v.outcome, Outcome::Pass)
                    && self.rep.samples.len() < 10
                    && (idx <= 2 || idx % self.sample_every == 0)
                {
                    self.rep.samples.push(serde_json::json!({
                        "layer": self.rep.name,
                        "case": crate::exec::trunc(rendered, 1500),
                        "nontrivial": v.nontrivial,
                        "labels": v.labels,
                        "observed": v.sample,
                    }));
                }
            }
        }
    }
}

fn shrink<L: Layer, T: ValueTree<Value = L::Case> + ?Sized>(
    layer: &L,
    ctx: &Ctx,
    tree: &mut T,
    first: (L::Case, String),
) -> (L::Case, String, u64) {
    let mut best = first;
    let mut evals = 0u64;
    let t0 = std::time::Instant::now();
    if !tree.simplify() {
        return shrink_structural(layer, ctx, best.0, best.1);
    }
    loop {
        if evals >= ctx.max_shrink_evals || t0.elapsed().as_secs() > 15 {
            break;
        }
        evals += 1;
        let cur = tree.current();
        let failed = if ctx.excluded_class(layer, &cur).is_some() {
            None
        } else {
            match layer.eval_for_shrink(&cur).outcome {
                Outcome::Fail(d) => Some(d),
                _ => None,
            }
        };
        match failed {
            Some(d) => {
                best = (cur, d);
                if !tree.simplify() {
                    break;
                }
            }
            None => {
                if !tree.complicate() {
                    break;
                }
            }
        }
    }
    let (c, d, e2) = shrink_structural(layer, ctx, best.0, best.1);
    (c, d, evals + e2)
}

/// greedy structural shrinking with the layer's own candidate generator
pub fn shrink_structural<L: Layer>(layer: &L, ctx: &Ctx, case: L::Case, detail: String) -> (L::Case, String, u64) {
    let mut best = (case, detail);
    let mut evals = 0u64;
    let budget = ctx.max_shrink_evals * 100;
    let t0 = std::time::Instant::now();
    'outer: loop {
        // shrinking is best effort: a wall-clock budget keeps slow (e.g. hanging) cases from
        // stalling the run; the failure is reported as far as it was shrunk
        if t0.elapsed().as_secs() > 40 {
            break;
        }
        let cands = layer.shrink_candidates(&best.0);
        if cands.is_empty() {
            break;
        }
        for chunk in cands.chunks(32) {
            if evals >= budget {
                break 'outer;
            }
            evals += chunk.len() as u64;
            let res: Vec<Option<String>> = chunk
                .par_iter()
                .map(|c| {
                    if ctx.excluded_class(layer, c).is_some() {
                        return None;
                    }
                    match layer.eval_for_shrink(c).outcome {
                        Outcome::Fail(d) => Some(d),
                        _ => None,
                    }
                })
                .collect();
            if let Some(i) = res.iter().position(|r| r.is_some()) {
                best = (chunk[i].clone(), res[i].clone().unwrap());
                continue 'outer;
            }
        }
        break;
    }
    (best.0, best.1, evals)
}

/// Random exploration driven by a proptest strategy.
pub fn explore<L, S>(layer: &L, strat: S, n: usize, ctx: &Ctx) -> LayerReport
where
    L: Layer,
    S: Strategy<Value = L::Case>,
{
    explore_one(layer, strat, n, ctx, 0).0
}

/// Sharded exploration: `shards` independent generators (seed + shard index) run in parallel;
/// useful when generating cases costs as much as judging them.  `make` builds the strategy
/// (strategies are not Sync, so every shard builds its own).
pub fn explore_par<L, S, F>(layer: &L, make: F, n: usize, ctx: &Ctx) -> LayerReport
where
    L: Layer,
    S: Strategy<Value = L::Case>,
    F: Fn() -> S + Sync,
{
    let shards = (n / 1024).clamp(1, 12);
    let per = n.div_ceil(shards);
    let parts: Vec<(LayerReport, HashSet<u64>)> = (0..shards).into_par_iter().map(|k| explore_one(layer, make(), per, ctx, k as u64)).collect();
    let mut it = parts.into_iter();
    let (mut rep, mut seen) = it.next().unwrap();
    for (r, s) in it {
        rep.generated += r.generated;
        rep.evaluations += r.evaluations;
        rep.skipped += r.skipped;
        rep.inconclusive += r.inconclusive;
        for (k, v) in r.excluded {
            *rep.excluded.entry(k).or_insert(0) += v;
        }
        for (k, v) in r.labels {
            *rep.labels.entry(k).or_insert(0) += v;
        }
        for (k, v) in r.skip_reasons {
            *rep.skip_reasons.entry(k).or_insert(0) += v;
        }
        for smp in r.samples {
            if rep.samples.len() < 10 {
                rep.samples.push(smp);
            }
        }
        for f in r.failures {
            if rep.failures.len() < ctx.max_failures && !rep.failures.iter().any(|g| g.rendered == f.rendered) {
                rep.failures.push(f);
            }
        }
        rep.notes.extend(r.notes);
        seen.extend(s);
    }
    rep.distinct_nontrivial = seen.len() as u64;
    rep.notes.push(format!("{shards} generator shards (seed + shard index)"));
    rep
}

fn explore_one<L, S>(layer: &L, strat: S, n: usize, ctx: &Ctx, shard: u64) -> (LayerReport, HashSet<u64>)
where
    L: Layer,
    S: Strategy<Value = L::Case>,
{
    let cfg = Config {
        rng_seed: RngSeed::Fixed(ctx.seed ^ hash_str(&layer.name()) ^ shard.wrapping_mul(0x9E3779B97F4A7C15)),
        failure_persistence: None,
        cases: n as u32,
        ..Config::default()
    };
    let mut runner = TestRunner::new(cfg);
    let mut acc = Acc::new(layer.name(), n as u64);
    let chunk = 256usize;
    let mut done = 0usize;
    let mut gen_errors = 0u64;
    let mut dup_failures = 0u32;
    while done < n && acc.rep.failures.len() < ctx.max_failures {
        let m = chunk.min(n - done);
        let mut trees = Vec::with_capacity(m);
        for _ in 0..m {
            match strat.new_tree(&mut runner) {
                Ok(t) => trees.push(t),
                Err(_) => gen_errors += 1,
            }
        }
        done += m;
        let vals: Vec<L::Case> = trees.iter().map(|t| t.current()).collect();
        let results: Vec<(String, Result<Verdict, String>)> = vals
            .par_iter()
            .map(|c| {
                let r = layer.render(c);
                if let Some(cl) = ctx.excluded_class(layer, c) {
                    (r, Err(cl))
                } else {
                    let t0 = std::time::Instant::now();
                    let v = layer.eval(c);
                    if t0.elapsed().as_secs() >= 8 && std::env::var_os("BVERIF_DEBUG").is_some() {
                        eprintln!("SLOW ({} s, {:?}):\n{r}\n----", t0.elapsed().as_secs(), v.outcome);
                    }
                    (r, Ok(v))
                }
            })
            .collect();
        let mut first_fail: Option<usize> = None;
        for (i, (rendered, res)) in results.iter().enumerate() {
            match res {
                Err(cl) => {
                    acc.rep.generated += 1;
                    *acc.rep.excluded.entry(cl.clone()).or_insert(0) += 1;
                }
                Ok(v) => {
                    acc.record(rendered, v);
                    if v.is_fail() && first_fail.is_none() {
                        first_fail = Some(i);
                    }
                }
            }
        }
        if let Some(i) = first_fail {
            let detail = match &results[i].1 {
                Ok(Verdict { outcome: Outcome::Fail(d), .. }) => d.clone(),
                _ => String::new(),
            };
            let mut tree = trees.swap_remove(i);
            let (case, detail, steps) = shrink(layer, ctx, &mut tree, (vals[i].clone(), detail));
            let rendered = layer.render(&case);
            if acc.rep.failures.iter().any(|f| f.rendered == rendered) {
                dup_failures += 1;
                if dup_failures >= 3 {
                    break;
                }
                continue;
            }
            acc.rep.failures.push(Failure {
                layer: layer.name(),
                rendered: layer.render(&case),
                case: serde_json::to_value(&case).unwrap_or(Value::Null),
                detail,
                shrink_steps: steps,
            });
        }
    }
    if gen_errors > 0 {
        acc.rep.notes.push(format!("{gen_errors} strategy rejections"));
    }
    (acc.rep, acc.seen)
}

/// Enumeration (bounded-exhaustive or a fixed list): no shrinking, first failures in
/// enumeration order are already minimal for smallest-first enumerators.
pub fn enumerate<L, I>(layer: &L, iter: I, ctx: &Ctx, exhaustive: bool, expected: u64) -> LayerReport
where
    L: Layer,
    I: Iterator<Item = L::Case>,
{
    let mut acc = Acc::new(layer.name(), expected);
    let mut iter = iter;
    let chunk = 1024usize;
    let mut complete = true;
    loop {
        let vals: Vec<L::Case> = iter.by_ref().take(chunk).collect();
        if vals.is_empty() {
            break;
        }
        let results: Vec<(String, Result<Verdict, String>)> = vals
            .par_iter()
            .map(|c| {
                let r = layer.render(c);
                if let Some(cl) = ctx.excluded_class(layer, c) {
                    (r, Err(cl))
                } else {
                    (r, Ok(layer.eval(c)))
                }
            })
            .collect();
        for (i, (rendered, res)) in results.iter().enumerate() {
            match res {
                Err(cl) => {
                    acc.rep.generated += 1;
                    *acc.rep.excluded.entry(cl.clone()).or_insert(0) += 1;
                }
                Ok(v) => {
                    acc.record(rendered, v);
                    if let Outcome::Fail(d) = &v.outcome {
                        if acc.rep.failures.len() < ctx.max_failures {
                            acc.rep.failures.push(Failure {
                                layer: layer.name(),
                                rendered: rendered.clone(),
                                case: serde_json::to_value(&vals[i]).unwrap_or(Value::Null),
                                detail: d.clone(),
                                shrink_steps: 0,
                            });
                        }
                    }
                }
            }
        }
        if acc.rep.failures.len() >= ctx.max_failures {
            complete = false;
            break;
        }
    }
    acc.rep.exhaustive = exhaustive && complete;
    acc.rep
}

/// Replay one serialised case through a layer.
pub fn replay_case<L: Layer>(layer: &L, case: &Value) -> Result<(String, Verdict), String> {
    let c: L::Case = serde_json::from_value(case.clone()).map_err(|e| format!("bad replay case: {e}"))?;
    Ok((layer.render(&c), layer.eval(&c)))
}

/// floors: (label, minimum count) — returns a message if the generator is degenerate
pub fn check_floors(rep: &LayerReport, floors: &[(&str, u64)]) -> Option<String> {
    let mut miss = vec![];
    for (l, min) in floors {
        let got = rep.labels.get(*l).copied().unwrap_or(0);
        if got < *min {
            miss.push(format!("{l}: {got} < {min}"));
        }
    }
    if miss.is_empty() {
        None
    } else {
        Some(format!("layer {}: label floors not met: {}", rep.name, miss.join(", ")))
    }
}

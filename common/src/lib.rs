pub mod diff;
pub mod exec;
pub mod prog;
pub mod report;
pub mod runner;
pub mod globmodel;
pub mod arith;

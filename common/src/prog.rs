//! Typed grammar of control-flow programs (C02, reused by C03 C15 C16 C18).
//!
//! Leaves are `t K S` (prints marker K, returns status S).  Loops are bounded by construction:
//! `while lim ID N` lets the body run at most N times between two resets of counter ID.

use proptest::prelude::*;
use serde::{Deserialize, Serialize};

#[derive(Clone, Debug, Serialize, Deserialize, PartialEq, Eq, Hash)]
pub enum Term {
    /// `;;`
    Break,
    /// `;&`
    Fall,
    /// `;;&`
    Cont,
}

#[derive(Clone, Debug, Serialize, Deserialize, PartialEq, Eq, Hash)]
pub enum Stmt {
    Leaf { k: u32, s: u8 },
    /// echo "@id:$?"
    Probe(u32),
    /// a && b || c …   (true = &&)
    AndOr { first: Box<Stmt>, rest: Vec<(bool, Stmt)> },
    Not(Box<Stmt>),
    If { cond: Vec<Stmt>, then: Vec<Stmt>, elifs: Vec<(Vec<Stmt>, Vec<Stmt>)>, els: Option<Vec<Stmt>> },
    /// while/until lim id n [&&/|| extra]; do body; done
    While { until: bool, id: u32, n: u8, extra: Option<(bool, Box<Stmt>)>, body: Vec<Stmt> },
    For { items: Vec<String>, body: Vec<Stmt> },
    ArithFor { n: u8, body: Vec<Stmt> },
    Case { word: String, items: Vec<(Vec<String>, Vec<Stmt>, Term)> },
    Brace(Vec<Stmt>),
    Subshell(Vec<Stmt>),
    Call(u8),
    Break(Option<i32>),
    Continue(Option<i32>),
    Return(Option<i32>),
    Exit(Option<i32>),
    // ---- extensions used by C03 / C16 / C18 ----
    /// a raw one-line simple command (option toggles, traps, fault leaves …)
    Raw(String),
    /// stage | stage | …
    Pipe(Vec<Stmt>),
    /// v=$( stmts )
    SubstAssign(Vec<Stmt>),
    /// echo "s:$( stmts )"
    SubstArg(Vec<Stmt>),
    /// eval 'stmt'
    Eval(Box<Stmt>),
}

#[derive(Clone, Debug, Serialize, Deserialize, PartialEq, Eq, Hash)]
pub struct Prog {
    /// function bodies f0..; f_i may call only f_j with j > i
    pub funcs: Vec<Vec<Stmt>>,
    pub main: Vec<Stmt>,
    /// separator style: true = newlines, false = `;`
    pub newlines: bool,
}

pub const PROLOGUE: &str = r#"t() { echo "$1"; return "$2"; }
lim() { eval "_c=\${c$1:-0}"; _c=$((_c+1)); if [ "$_c" -gt "$2" ]; then eval "c$1=0"; return 1; fi; eval "c$1=$_c"; return 0; }
nlim() { if lim "$1" "$2"; then return 1; else return 0; fi; }
"#;

pub const SENTINEL: &str = "@END";

// ---------------------------------------------------------------------------------------------
// rendering
// ---------------------------------------------------------------------------------------------

pub struct Renderer {
    pub newlines: bool,
    /// loop counters get unique ids in rendering order (nested loops must not share a counter)
    pub next_loop: std::cell::Cell<u32>,
    /// inside `$( )`: write case patterns as `(pat)` — brush's tokenizer ends the substitution at
    /// the `)` of an unparenthesised pattern (known finding C03-case-pattern-in-cmdsubst)
    pub paren_case: bool,
}

impl Renderer {
    pub fn new(newlines: bool) -> Renderer {
        Renderer { newlines, next_loop: std::cell::Cell::new(0), paren_case: false }
    }
    fn inner(&self, subst: bool) -> Renderer {
        Renderer {
            newlines: false,
            next_loop: std::cell::Cell::new(self.next_loop.get() + 1000),
            paren_case: self.paren_case || subst,
        }
    }
}

fn raw_is_compound_text(s: &str) -> bool {
    s.contains("&&") || s.contains("||") || s.contains(" | ") || s.contains("; ") || s.starts_with("! ") || s.starts_with("time ") || s.ends_with('&')
}

fn is_single_command(s: &Stmt) -> bool {
    if let Stmt::Raw(t) = s {
        return !raw_is_compound_text(t);
    }
    // `eval` as a direct pipeline stage is wrapped in braces too: under errexit bash 5.2 reports
    // status 1 instead of the failing command's status for a bare `eval` stage (oracle quirk)
    !matches!(s, Stmt::AndOr { .. } | Stmt::Not(_) | Stmt::Pipe(_) | Stmt::Eval(_))
}

impl Renderer {
    fn sep(&self) -> &'static str {
        if self.newlines {
            "\n"
        } else {
            "; "
        }
    }

    pub fn list(&self, l: &[Stmt], out: &mut String) {
        if l.is_empty() {
            out.push(':');
            return;
        }
        for (i, s) in l.iter().enumerate() {
            if i > 0 {
                out.push_str(self.sep());
            }
            self.stmt(s, out);
        }
    }

    /// list followed by the separator needed before a closing keyword
    fn list_t(&self, l: &[Stmt], out: &mut String) {
        self.list(l, out);
        out.push_str(self.sep());
    }

    /// render something usable as one pipeline element (a command)
    fn command(&self, s: &Stmt, out: &mut String) {
        if is_single_command(s) {
            self.stmt(s, out);
        } else {
            out.push_str("{ ");
            self.stmt(s, out);
            out.push_str("; }");
        }
    }

    fn stmt_in_group(&self, s: &Stmt, out: &mut String) {
        self.stmt(s, out);
    }

    /// render something usable as an and-or operand (a pipeline, possibly with !)
    fn pipeline(&self, s: &Stmt, out: &mut String) {
        match s {
            Stmt::AndOr { .. } => {
                out.push_str("{ ");
                self.stmt(s, out);
                out.push_str("; }");
            }
            Stmt::Raw(t) if raw_is_compound_text(t) => {
                out.push_str("{ ");
                out.push_str(t);
                out.push_str("; }");
            }
            _ => self.stmt(s, out),
        }
    }

    pub fn stmt(&self, s: &Stmt, out: &mut String) {
        match s {
            Stmt::Leaf { k, s } => out.push_str(&format!("t {k} {s}")),
            Stmt::Probe(id) => out.push_str(&format!("echo \"@{id}:$?\"")),
            Stmt::AndOr { first, rest } => {
                self.pipeline(first, out);
                for (and, r) in rest {
                    out.push_str(if *and { " && " } else { " || " });
                    self.pipeline(r, out);
                }
            }
            Stmt::Not(inner) => {
                out.push_str("! ");
                match &**inner {
                    Stmt::Raw(t) if raw_is_compound_text(t) => {
                        out.push_str("{ ");
                        out.push_str(t);
                        out.push_str("; }");
                    }
                    Stmt::Not(_) | Stmt::AndOr { .. } => {
                        out.push_str("{ ");
                        self.stmt(inner, out);
                        out.push_str("; }");
                    }
                    _ => self.stmt(inner, out),
                }
            }
            Stmt::If { cond, then, elifs, els } => {
                out.push_str("if ");
                self.list_t(cond, out);
                out.push_str("then ");
                self.list_t(then, out);
                for (c, b) in elifs {
                    out.push_str("elif ");
                    self.list_t(c, out);
                    out.push_str("then ");
                    self.list_t(b, out);
                }
                if let Some(e) = els {
                    out.push_str("else ");
                    self.list_t(e, out);
                }
                out.push_str("fi");
            }
            Stmt::While { until, id: _, n, extra, body } => {
                let id = self.next_loop.get();
                self.next_loop.set(id + 1);
                out.push_str(if *until { "until nlim " } else { "while lim " });
                out.push_str(&format!("{id} {n}"));
                if let Some((_, e)) = extra {
                    // the extra operand can only shorten the loop: `lim && x` / `nlim || x`
                    out.push_str(if *until { " || " } else { " && " });
                    self.pipeline(e, out);
                }
                out.push_str(self.sep());
                out.push_str("do ");
                self.list_t(body, out);
                out.push_str("done");
            }
            Stmt::For { items, body } => {
                out.push_str("for v in");
                for it in items {
                    out.push(' ');
                    out.push_str(it);
                }
                out.push_str(self.sep());
                out.push_str("do ");
                self.list_t(body, out);
                out.push_str("done");
            }
            Stmt::ArithFor { n, body } => {
                let id = self.next_loop.get();
                self.next_loop.set(id + 1);
                out.push_str(&format!("for ((i{id}=0; i{id}<{n}; i{id}++))"));
                out.push_str(self.sep());
                out.push_str("do ");
                self.list_t(body, out);
                out.push_str("done");
            }
            Stmt::Case { word, items } => {
                out.push_str(&format!("case {word} in "));
                for (pats, body, term) in items {
                    if self.paren_case {
                        out.push('(');
                    }
                    out.push_str(&pats.join("|"));
                    out.push_str(") ");
                    self.list(body, out);
                    out.push_str(match term {
                        Term::Break => " ;; ",
                        Term::Fall => " ;& ",
                        Term::Cont => " ;;& ",
                    });
                    if self.newlines {
                        out.push('\n');
                    }
                }
                out.push_str("esac");
            }
            Stmt::Brace(l) => {
                out.push_str("{ ");
                self.list_t(l, out);
                out.push('}');
            }
            Stmt::Subshell(l) => {
                out.push_str("( ");
                self.list(l, out);
                out.push_str(" )");
            }
            Stmt::Call(i) => out.push_str(&format!("f{i}")),
            Stmt::Break(n) => {
                out.push_str("break");
                if let Some(n) = n {
                    out.push_str(&format!(" {n}"));
                }
            }
            Stmt::Continue(n) => {
                out.push_str("continue");
                if let Some(n) = n {
                    out.push_str(&format!(" {n}"));
                }
            }
            Stmt::Return(n) => {
                out.push_str("return");
                if let Some(n) = n {
                    out.push_str(&format!(" {n}"));
                }
            }
            Stmt::Exit(n) => {
                out.push_str("exit");
                if let Some(n) = n {
                    out.push_str(&format!(" {n}"));
                }
            }
            Stmt::Raw(s) => out.push_str(s),
            Stmt::Pipe(stages) => {
                for (i, st) in stages.iter().enumerate() {
                    if i == 0 {
                        self.command(st, out);
                    } else {
                        // every later stage drains its input first, so that no writer can
                        // see EPIPE/SIGPIPE depending on timing
                        out.push_str(" | { cat >/dev/null; ");
                        self.stmt_in_group(st, out);
                        out.push_str("; }");
                    }
                }
            }
            Stmt::SubstAssign(l) => {
                out.push_str("sv=$( ");
                let inner = self.inner(true);
                inner.list(l, out);
                out.push_str(" )");
            }
            Stmt::SubstArg(l) => {
                out.push_str("echo \"s:$( ");
                let inner = self.inner(true);
                inner.list(l, out);
                out.push_str(" )\"");
            }
            Stmt::Eval(inner) => {
                let mut body = String::new();
                let r = self.inner(false);
                r.stmt(inner, &mut body);
                out.push_str("eval '");
                out.push_str(&body.replace('\'', "'\\''"));
                out.push('\'');
            }
        }
    }
}

impl Prog {
    /// body only (no prologue / sentinel)
    pub fn render_body(&self) -> String {
        let r = Renderer::new(self.newlines);
        let mut out = String::new();
        for (i, f) in self.funcs.iter().enumerate() {
            out.push_str(&format!("f{i}() {{ "));
            r.list_t(f, &mut out);
            out.push_str("}\n");
        }
        r.list(&self.main, &mut out);
        out.push('\n');
        out
    }

    pub fn render(&self) -> String {
        format!("{}{}echo \"{}:$?\"\n", PROLOGUE, self.render_body(), SENTINEL)
    }

    /// only the function definitions
    pub fn render_funcs(&self) -> String {
        let r = Renderer::new(self.newlines);
        let mut out = String::new();
        for (i, f) in self.funcs.iter().enumerate() {
            out.push_str(&format!("f{i}() {{ "));
            r.list_t(f, &mut out);
            out.push_str("}\n");
        }
        out
    }
}

// ---------------------------------------------------------------------------------------------
// analysis (labels, exclusion classes)
// ---------------------------------------------------------------------------------------------

#[derive(Default, Debug, Clone)]
pub struct Facts {
    pub max_depth: u32,
    pub jumps: u32,
    /// break/continue with n ≥ 2
    pub jump_n2: bool,
    /// break/continue n larger than lexically enclosing loop depth (within the same function / top level)
    pub jump_beyond_depth: bool,
    /// break/continue lexically outside any loop of its function body / main
    pub jump_outside_loop: bool,
    /// break/continue with n <= 0
    pub jump_nonpositive: bool,
    pub jump_in_cond: bool,
    pub jump_through_case: bool,
    pub return_in_loop_in_func: bool,
    pub return_outside_func: bool,
    pub exit_in_subshell: bool,
    pub case_fallthrough: bool,
    pub not_on_compound: bool,
    pub call_in_andor_or_cond: bool,
    pub for_empty_list: bool,
    pub nested_subshell_start: bool,
    /// `( ! cmd )`: a subshell whose only command is a negated pipeline
    pub sole_bang_return_in_subshell: bool,
    pub case_in_subshell_or_subst: bool,
    pub kinds: std::collections::BTreeSet<&'static str>,
}

struct Walk {
    loop_depth: u32,
    in_func: bool,
    in_cond: bool,
    in_case: u32,
    in_subshell: u32,
    in_andor: bool,
    depth: u32,
    loop_depth_at_case: Vec<u32>,
}

fn walk_list(l: &[Stmt], w: &mut Walk, f: &mut Facts) {
    for s in l {
        walk(s, w, f);
    }
}

fn walk(s: &Stmt, w: &mut Walk, f: &mut Facts) {
    f.max_depth = f.max_depth.max(w.depth);
    let compound = matches!(
        s,
        Stmt::If { .. } | Stmt::While { .. } | Stmt::For { .. } | Stmt::ArithFor { .. } | Stmt::Case { .. } | Stmt::Brace(_) | Stmt::Subshell(_)
    );
    match s {
        Stmt::Leaf { .. } => {
            f.kinds.insert("leaf");
        }
        Stmt::Probe(_) | Stmt::Raw(_) => {}
        Stmt::AndOr { first, rest } => {
            f.kinds.insert("andor");
            let save = w.in_andor;
            w.in_andor = true;
            w.depth += 1;
            walk(first, w, f);
            for (_, r) in rest {
                walk(r, w, f);
            }
            w.depth -= 1;
            w.in_andor = save;
        }
        Stmt::Not(i) => {
            f.kinds.insert("not");
            if !matches!(**i, Stmt::Leaf { .. } | Stmt::Call(_)) {
                f.not_on_compound = true;
            }
            let save = w.in_andor;
            w.in_andor = true;
            w.depth += 1;
            walk(i, w, f);
            w.depth -= 1;
            w.in_andor = save;
        }
        Stmt::If { cond, then, elifs, els } => {
            f.kinds.insert("if");
            w.depth += 1;
            let save = w.in_cond;
            w.in_cond = true;
            walk_list(cond, w, f);
            w.in_cond = save;
            walk_list(then, w, f);
            for (c, b) in elifs {
                f.kinds.insert("elif");
                w.in_cond = true;
                walk_list(c, w, f);
                w.in_cond = save;
                walk_list(b, w, f);
            }
            if let Some(e) = els {
                walk_list(e, w, f);
            }
            w.depth -= 1;
        }
        Stmt::While { until, extra, body, .. } => {
            f.kinds.insert(if *until { "until" } else { "while" });
            w.depth += 1;
            w.loop_depth += 1;
            if let Some((_, e)) = extra {
                let save = w.in_cond;
                w.in_cond = true;
                walk(e, w, f);
                w.in_cond = save;
            }
            walk_list(body, w, f);
            w.loop_depth -= 1;
            w.depth -= 1;
        }
        Stmt::For { items, body } => {
            f.kinds.insert("for");
            if items.is_empty() {
                f.for_empty_list = true;
            }
            w.depth += 1;
            w.loop_depth += 1;
            walk_list(body, w, f);
            w.loop_depth -= 1;
            w.depth -= 1;
        }
        Stmt::ArithFor { body, .. } => {
            f.kinds.insert("arithfor");
            w.depth += 1;
            w.loop_depth += 1;
            walk_list(body, w, f);
            w.loop_depth -= 1;
            w.depth -= 1;
        }
        Stmt::Case { items, .. } => {
            f.kinds.insert("case");
            if w.in_subshell > 0 {
                f.case_in_subshell_or_subst = true;
            }
            w.depth += 1;
            w.in_case += 1;
            w.loop_depth_at_case.push(w.loop_depth);
            for (_, body, term) in items {
                if *term != Term::Break {
                    f.case_fallthrough = true;
                }
                walk_list(body, w, f);
            }
            w.loop_depth_at_case.pop();
            w.in_case -= 1;
            w.depth -= 1;
        }
        Stmt::Brace(l) => {
            f.kinds.insert("brace");
            w.depth += 1;
            walk_list(l, w, f);
            w.depth -= 1;
        }
        Stmt::Subshell(l) => {
            f.kinds.insert("subshell");
            if matches!(l.first(), Some(Stmt::Subshell(_))) {
                f.nested_subshell_start = true;
            }
            if l.len() == 1 && matches!(l[0], Stmt::Not(_)) {
                f.sole_bang_return_in_subshell = true;
            }
            w.depth += 1;
            w.in_subshell += 1;
            // a subshell starts a fresh loop context: bash resets its loop level there
            let save = std::mem::replace(&mut w.loop_depth, 0);
            walk_list(l, w, f);
            w.loop_depth = save;
            w.in_subshell -= 1;
            w.depth -= 1;
        }
        Stmt::Call(_) => {
            f.kinds.insert("call");
            if w.in_andor || w.in_cond {
                f.call_in_andor_or_cond = true;
            }
        }
        Stmt::Break(n) | Stmt::Continue(n) => {
            f.kinds.insert(if matches!(s, Stmt::Break(_)) { "break" } else { "continue" });
            f.jumps += 1;
            let nn = n.unwrap_or(1);
            if nn >= 2 {
                f.jump_n2 = true;
            }
            if nn <= 0 {
                f.jump_nonpositive = true;
            }
            if w.loop_depth == 0 {
                f.jump_outside_loop = true;
            } else if nn > w.loop_depth as i32 {
                f.jump_beyond_depth = true;
            }
            if w.in_cond {
                f.jump_in_cond = true;
            }
            if let Some(at) = w.loop_depth_at_case.last() {
                if *at > 0 && w.loop_depth == *at {
                    f.jump_through_case = true;
                }
            }
        }
        Stmt::Return(_) => {
            f.kinds.insert("return");
            f.jumps += 1;
            if !w.in_func {
                f.return_outside_func = true;
            } else if w.loop_depth > 0 {
                f.return_in_loop_in_func = true;
            }
        }
        Stmt::Exit(_) => {
            f.kinds.insert("exit");
            f.jumps += 1;
            if w.in_subshell > 0 {
                f.exit_in_subshell = true;
            }
        }
        Stmt::Pipe(stages) => {
            f.kinds.insert("pipe");
            w.depth += 1;
            w.in_subshell += 1;
            let save = std::mem::replace(&mut w.loop_depth, 0);
            for st in stages {
                walk(st, w, f);
            }
            w.loop_depth = save;
            w.in_subshell -= 1;
            w.depth -= 1;
        }
        Stmt::SubstAssign(l) | Stmt::SubstArg(l) => {
            f.kinds.insert("subst");
            w.depth += 1;
            w.in_subshell += 1;
            let save = std::mem::replace(&mut w.loop_depth, 0);
            walk_list(l, w, f);
            w.loop_depth = save;
            w.in_subshell -= 1;
            w.depth -= 1;
        }
        Stmt::Eval(i) => {
            f.kinds.insert("eval");
            w.depth += 1;
            walk(i, w, f);
            w.depth -= 1;
        }
    }
    let _ = compound;
}

impl Prog {
    pub fn facts(&self) -> Facts {
        let mut f = Facts::default();
        for body in &self.funcs {
            let mut w = Walk {
                loop_depth: 0,
                in_func: true,
                in_cond: false,
                in_case: 0,
                in_subshell: 0,
                in_andor: false,
                depth: 1,
                loop_depth_at_case: vec![],
            };
            walk_list(body, &mut w, &mut f);
        }
        let mut w = Walk {
            loop_depth: 0,
            in_func: false,
            in_cond: false,
            in_case: 0,
            in_subshell: 0,
            in_andor: false,
            depth: 0,
            loop_depth_at_case: vec![],
        };
        walk_list(&self.main, &mut w, &mut f);
        f
    }
}

// ---------------------------------------------------------------------------------------------
// generation
// ---------------------------------------------------------------------------------------------

#[derive(Clone, Debug)]
pub struct GenCfg {
    pub depth: u32,
    pub max_list: usize,
    pub nfuncs: usize,
    /// extra raw leaves (C03 option toggles, C16 trap commands, C18 fault leaves …) with weight
    pub raw: Vec<String>,
    pub raw_weight: u32,
    pub pipes: bool,
    pub substs: bool,
    pub evals: bool,
    pub jumps: bool,
    pub exits: bool,
    pub probes: bool,
    /// no while/until loops (their `lim` counters carry state from one run of the program to the next)
    pub no_while: bool,
}

impl Default for GenCfg {
    fn default() -> Self {
        GenCfg {
            depth: 3,
            max_list: 3,
            nfuncs: 2,
            raw: vec![],
            raw_weight: 0,
            pipes: false,
            substs: false,
            evals: false,
            jumps: true,
            exits: true,
            probes: true,
            no_while: false,
        }
    }
}

fn status() -> impl Strategy<Value = u8> {
    prop_oneof![4 => Just(0u8), 3 => Just(1u8), 1 => Just(2u8), 1 => Just(77u8), 1 => Just(255u8)]
}

fn leaf() -> impl Strategy<Value = Stmt> {
    (0u32..100, status()).prop_map(|(k, s)| Stmt::Leaf { k, s })
}

fn jump_n() -> impl Strategy<Value = Option<i32>> {
    prop_oneof![
        24 => Just(None),
        4 => Just(Some(1)),
        12 => Just(Some(2)),
        4 => Just(Some(3)),
        1 => Just(Some(0)),
        1 => Just(Some(99)),
    ]
}

fn ret_n() -> impl Strategy<Value = Option<i32>> {
    prop_oneof![3 => Just(None), 2 => Just(Some(0)), 2 => Just(Some(3)), 1 => Just(Some(255)), 1 => Just(Some(256))]
}

const CASE_WORDS: &[&str] = &["a", "b", "ab", "c"];
const CASE_PATS: &[&str] = &["a", "b", "a*", "*b", "*", "c", "?"];

fn terminal(cfg: &GenCfg, nfuncs_callable: std::ops::Range<u8>) -> BoxedStrategy<Stmt> {
    let mut opts: Vec<(u32, BoxedStrategy<Stmt>)> = vec![(10, leaf().boxed())];
    if cfg.probes {
        opts.push((3, (0u32..100).prop_map(Stmt::Probe).boxed()));
    }
    if cfg.jumps {
        opts.push((2, jump_n().prop_map(Stmt::Break).boxed()));
        opts.push((2, jump_n().prop_map(Stmt::Continue).boxed()));
        opts.push((1, ret_n().prop_map(Stmt::Return).boxed()));
    }
    if cfg.exits {
        opts.push((1, ret_n().prop_map(Stmt::Exit).boxed()));
    }
    if !nfuncs_callable.is_empty() {
        opts.push((3, nfuncs_callable.prop_map(Stmt::Call).boxed()));
    }
    if !cfg.raw.is_empty() && cfg.raw_weight > 0 {
        let raws = cfg.raw.clone();
        opts.push((cfg.raw_weight, proptest::sample::select(raws).prop_map(Stmt::Raw).boxed()));
    }
    proptest::strategy::Union::new_weighted(opts).boxed()
}

/// strategy for one statement; `first_callable` = lowest function index callable from here
pub fn stmt_strategy(cfg: &GenCfg, first_callable: u8) -> BoxedStrategy<Stmt> {
    let callable = first_callable..(cfg.nfuncs as u8);
    let term = terminal(cfg, callable);
    let max_list = cfg.max_list;
    let cfg2 = cfg.clone();
    term.prop_recursive(cfg.depth, 24, 4, move |inner| {
        let list = proptest::collection::vec(inner.clone(), 1..=max_list);
        let list0 = proptest::collection::vec(inner.clone(), 0..=max_list);
        let mut opts: Vec<(u32, BoxedStrategy<Stmt>)> = vec![
            (
                4,
                (inner.clone(), proptest::collection::vec((any::<bool>(), inner.clone()), 1..=2))
                    .prop_map(|(f, r)| Stmt::AndOr { first: Box::new(f), rest: r })
                    .boxed(),
            ),
            (2, inner.clone().prop_map(|i| Stmt::Not(Box::new(i))).boxed()),
            (
                4,
                (
                    list.clone(),
                    list.clone(),
                    proptest::collection::vec((list.clone(), list.clone()), 0..=1),
                    proptest::option::of(list.clone()),
                )
                    .prop_map(|(cond, then, elifs, els)| Stmt::If { cond, then, elifs, els })
                    .boxed(),
            ),
            (
                4,
                (
                    any::<bool>(),
                    0u32..6,
                    1u8..=3,
                    proptest::option::weighted(0.3, (any::<bool>(), inner.clone().prop_map(Box::new))),
                    list.clone(),
                )
                    .prop_map(|(until, id, n, extra, body)| Stmt::While { until, id, n, extra, body })
                    .boxed(),
            ),
            (
                3,
                (proptest::collection::vec(proptest::sample::select(vec!["x", "y", "z"]), 0..=3), list.clone())
                    .prop_map(|(items, body)| Stmt::For { items: items.into_iter().map(String::from).collect(), body })
                    .boxed(),
            ),
            (1, (1u8..=3, list.clone()).prop_map(|(n, body)| Stmt::ArithFor { n, body }).boxed()),
            (
                3,
                (
                    proptest::sample::select(CASE_WORDS.to_vec()),
                    proptest::collection::vec(
                        (
                            proptest::collection::vec(proptest::sample::select(CASE_PATS.to_vec()), 1..=2),
                            list0.clone(),
                            prop_oneof![3 => Just(Term::Break), 2 => Just(Term::Fall), 2 => Just(Term::Cont)],
                        ),
                        1..=3,
                    ),
                )
                    .prop_map(|(w, items)| Stmt::Case {
                        word: w.to_string(),
                        items: items
                            .into_iter()
                            .map(|(p, b, t)| (p.into_iter().map(String::from).collect(), b, t))
                            .collect(),
                    })
                    .boxed(),
            ),
            (2, list.clone().prop_map(Stmt::Brace).boxed()),
            (2, list.clone().prop_map(Stmt::Subshell).boxed()),
        ];
        if cfg2.no_while {
            let _ = opts.remove(3); // the While entry
        }
        if cfg2.pipes {
            opts.push((3, proptest::collection::vec(inner.clone(), 2..=3).prop_map(Stmt::Pipe).boxed()));
        }
        if cfg2.substs {
            opts.push((2, list.clone().prop_map(Stmt::SubstAssign).boxed()));
            opts.push((2, list.clone().prop_map(Stmt::SubstArg).boxed()));
        }
        if cfg2.evals {
            opts.push((2, inner.clone().prop_map(|i| Stmt::Eval(Box::new(i))).boxed()));
        }
        proptest::strategy::Union::new_weighted(opts)
    })
    .boxed()
}

pub fn prog_strategy(cfg: &GenCfg) -> BoxedStrategy<Prog> {
    let nf = cfg.nfuncs;
    let mut funcs: Vec<BoxedStrategy<Vec<Stmt>>> = vec![];
    for i in 0..nf {
        let mut c = cfg.clone();
        c.depth = cfg.depth.saturating_sub(1).max(1);
        funcs.push(proptest::collection::vec(stmt_strategy(&c, (i + 1) as u8), 1..=cfg.max_list).boxed());
    }
    let main = proptest::collection::vec(stmt_strategy(cfg, 0), 1..=cfg.max_list + 1);
    (funcs, main, any::<bool>())
        .prop_map(|(funcs, main, newlines)| {
            let mut p = Prog { funcs, main, newlines };
            p.normalize();
            p
        })
        .boxed()
}

// ---------------------------------------------------------------------------------------------
// structural shrinking (applied after proptest's own shrinking)
// ---------------------------------------------------------------------------------------------

fn children_lists(s: &Stmt) -> Vec<Vec<Stmt>> {
    match s {
        Stmt::AndOr { first, rest } => {
            let mut v = vec![vec![(**first).clone()]];
            for (_, r) in rest {
                v.push(vec![r.clone()]);
            }
            v
        }
        Stmt::Not(i) | Stmt::Eval(i) => vec![vec![(**i).clone()]],
        Stmt::If { cond, then, elifs, els } => {
            let mut v = vec![cond.clone(), then.clone()];
            for (c, b) in elifs {
                v.push(c.clone());
                v.push(b.clone());
            }
            if let Some(e) = els {
                v.push(e.clone());
            }
            v
        }
        Stmt::While { extra, body, .. } => {
            let mut v = vec![body.clone()];
            if let Some((_, e)) = extra {
                v.push(vec![(**e).clone()]);
            }
            v
        }
        Stmt::For { body, .. } | Stmt::ArithFor { body, .. } => vec![body.clone()],
        Stmt::Case { items, .. } => items.iter().map(|(_, b, _)| b.clone()).collect(),
        Stmt::Brace(l) | Stmt::Subshell(l) | Stmt::SubstAssign(l) | Stmt::SubstArg(l) => vec![l.clone()],
        Stmt::Pipe(st) => st.iter().map(|s| vec![s.clone()]).collect(),
        _ => vec![],
    }
}

fn stmt_variants(s: &Stmt) -> Vec<Stmt> {
    let mut out = vec![];
    let lv = |l: &Vec<Stmt>, allow_empty: bool| -> Vec<Vec<Stmt>> {
        list_variants(l).into_iter().filter(|x| allow_empty || !x.is_empty()).collect()
    };
    match s {
        Stmt::Leaf { k, s } => {
            if *s != 0 && *s != 1 {
                out.push(Stmt::Leaf { k: *k, s: 1 });
            }
        }
        Stmt::AndOr { first, rest } => {
            if rest.len() > 1 {
                for i in 0..rest.len() {
                    let mut r = rest.clone();
                    r.remove(i);
                    out.push(Stmt::AndOr { first: first.clone(), rest: r });
                }
            }
            for v in stmt_variants(first) {
                out.push(Stmt::AndOr { first: Box::new(v), rest: rest.clone() });
            }
            for i in 0..rest.len() {
                for v in stmt_variants(&rest[i].1) {
                    let mut r = rest.clone();
                    r[i].1 = v;
                    out.push(Stmt::AndOr { first: first.clone(), rest: r });
                }
            }
        }
        Stmt::Not(i) => {
            for v in stmt_variants(i) {
                out.push(Stmt::Not(Box::new(v)));
            }
        }
        Stmt::Eval(i) => {
            for v in stmt_variants(i) {
                out.push(Stmt::Eval(Box::new(v)));
            }
        }
        Stmt::If { cond, then, elifs, els } => {
            if els.is_some() {
                out.push(Stmt::If { cond: cond.clone(), then: then.clone(), elifs: elifs.clone(), els: None });
            }
            for i in 0..elifs.len() {
                let mut e = elifs.clone();
                e.remove(i);
                out.push(Stmt::If { cond: cond.clone(), then: then.clone(), elifs: e, els: els.clone() });
            }
            for v in lv(cond, false) {
                out.push(Stmt::If { cond: v, then: then.clone(), elifs: elifs.clone(), els: els.clone() });
            }
            for v in lv(then, false) {
                out.push(Stmt::If { cond: cond.clone(), then: v, elifs: elifs.clone(), els: els.clone() });
            }
            for i in 0..elifs.len() {
                for v in lv(&elifs[i].0, false) {
                    let mut e = elifs.clone();
                    e[i].0 = v;
                    out.push(Stmt::If { cond: cond.clone(), then: then.clone(), elifs: e, els: els.clone() });
                }
                for v in lv(&elifs[i].1, false) {
                    let mut e = elifs.clone();
                    e[i].1 = v;
                    out.push(Stmt::If { cond: cond.clone(), then: then.clone(), elifs: e, els: els.clone() });
                }
            }
            if let Some(e) = els {
                for v in lv(e, false) {
                    out.push(Stmt::If { cond: cond.clone(), then: then.clone(), elifs: elifs.clone(), els: Some(v) });
                }
            }
        }
        Stmt::While { until, id, n, extra, body } => {
            if extra.is_some() {
                out.push(Stmt::While { until: *until, id: *id, n: *n, extra: None, body: body.clone() });
            }
            if *n > 1 {
                out.push(Stmt::While { until: *until, id: *id, n: 1, extra: extra.clone(), body: body.clone() });
            }
            for v in lv(body, false) {
                out.push(Stmt::While { until: *until, id: *id, n: *n, extra: extra.clone(), body: v });
            }
            if let Some((a, e)) = extra {
                for v in stmt_variants(e) {
                    out.push(Stmt::While { until: *until, id: *id, n: *n, extra: Some((*a, Box::new(v))), body: body.clone() });
                }
            }
        }
        Stmt::For { items, body } => {
            if items.len() > 1 {
                out.push(Stmt::For { items: items[..1].to_vec(), body: body.clone() });
            }
            for v in lv(body, false) {
                out.push(Stmt::For { items: items.clone(), body: v });
            }
        }
        Stmt::ArithFor { n, body } => {
            if *n > 1 {
                out.push(Stmt::ArithFor { n: 1, body: body.clone() });
            }
            for v in lv(body, false) {
                out.push(Stmt::ArithFor { n: *n, body: v });
            }
        }
        Stmt::Case { word, items } => {
            if items.len() > 1 {
                for i in 0..items.len() {
                    let mut it = items.clone();
                    it.remove(i);
                    out.push(Stmt::Case { word: word.clone(), items: it });
                }
            }
            for i in 0..items.len() {
                if items[i].0.len() > 1 {
                    let mut it = items.clone();
                    it[i].0.truncate(1);
                    out.push(Stmt::Case { word: word.clone(), items: it });
                }
                if items[i].2 != Term::Break {
                    let mut it = items.clone();
                    it[i].2 = Term::Break;
                    out.push(Stmt::Case { word: word.clone(), items: it });
                }
                for v in lv(&items[i].1, true) {
                    let mut it = items.clone();
                    it[i].1 = v;
                    out.push(Stmt::Case { word: word.clone(), items: it });
                }
            }
        }
        Stmt::Brace(l) => {
            for v in lv(l, false) {
                out.push(Stmt::Brace(v));
            }
        }
        Stmt::Subshell(l) => {
            for v in lv(l, false) {
                out.push(Stmt::Subshell(v));
            }
        }
        Stmt::SubstAssign(l) => {
            for v in lv(l, false) {
                out.push(Stmt::SubstAssign(v));
            }
        }
        Stmt::SubstArg(l) => {
            for v in lv(l, false) {
                out.push(Stmt::SubstArg(v));
            }
        }
        Stmt::Pipe(st) => {
            if st.len() > 2 {
                for i in 0..st.len() {
                    let mut s2 = st.clone();
                    s2.remove(i);
                    out.push(Stmt::Pipe(s2));
                }
            }
            for i in 0..st.len() {
                for v in stmt_variants(&st[i]) {
                    let mut s2 = st.clone();
                    s2[i] = v;
                    out.push(Stmt::Pipe(s2));
                }
            }
        }
        Stmt::Break(Some(_)) => out.push(Stmt::Break(None)),
        Stmt::Continue(Some(_)) => out.push(Stmt::Continue(None)),
        Stmt::Return(Some(_)) => out.push(Stmt::Return(None)),
        Stmt::Exit(Some(_)) => out.push(Stmt::Exit(None)),
        _ => {}
    }
    out
}

/// all one-step simplifications of a statement list (may produce the empty list)
pub fn list_variants(l: &[Stmt]) -> Vec<Vec<Stmt>> {
    let mut out = vec![];
    // remove one element
    for i in 0..l.len() {
        let mut v = l.to_vec();
        v.remove(i);
        out.push(v);
    }
    // hoist: replace element i by one of its child lists
    for i in 0..l.len() {
        for ch in children_lists(&l[i]) {
            let mut v = l[..i].to_vec();
            v.extend(ch);
            v.extend_from_slice(&l[i + 1..]);
            out.push(v);
        }
    }
    // simplify inside element i
    for i in 0..l.len() {
        for sv in stmt_variants(&l[i]) {
            let mut v = l.to_vec();
            v[i] = sv;
            out.push(v);
        }
    }
    out
}

impl Prog {
    pub fn size(&self) -> usize {
        serde_json::to_string(self).map(|s| s.len()).unwrap_or(0)
    }

    pub fn shrink_candidates(&self) -> Vec<Prog> {
        let mut out = vec![];
        // drop a function that is not called anywhere (last first)
        let text = serde_json::to_string(self).unwrap_or_default();
        if let Some(last) = self.funcs.len().checked_sub(1) {
            if !text.contains(&format!("{{\"Call\":{last}}}")) {
                let mut p = self.clone();
                p.funcs.pop();
                out.push(p);
            }
        }
        if self.newlines {
            let mut p = self.clone();
            p.newlines = false;
            out.push(p);
        }
        for v in list_variants(&self.main) {
            if v.is_empty() {
                continue;
            }
            let mut p = self.clone();
            p.main = v;
            out.push(p);
        }
        for i in 0..self.funcs.len() {
            for v in list_variants(&self.funcs[i]) {
                if v.is_empty() {
                    continue;
                }
                let mut p = self.clone();
                p.funcs[i] = v;
                out.push(p);
            }
        }
        out.sort_by_key(|p| p.size());
        out
    }
}

// ---------------------------------------------------------------------------------------------
// normalisation: keep most jumps meaningful (a context-free generator puts most of them outside
// loops); out-of-range jumps stay, but rarely and in designated forms only
// ---------------------------------------------------------------------------------------------

fn norm_list(l: &mut Vec<Stmt>, loop_depth: u32, in_func: bool) {
    for s in l.iter_mut() {
        norm(s, loop_depth, in_func);
    }
}

fn norm(s: &mut Stmt, loop_depth: u32, in_func: bool) {
    match s {
        Stmt::Break(n) | Stmt::Continue(n) => {
            if loop_depth == 0 {
                // only explicit `break 1`, `break 0`, `break 99` survive outside loops
                if !matches!(n, Some(0) | Some(99)) {
                    *s = Stmt::Leaf { k: 0, s: 0 };
                }
            } else if let Some(v) = n {
                if *v != 99 && *v > loop_depth as i32 {
                    *v = loop_depth as i32;
                }
            }
        }
        Stmt::Return(n) => {
            if !in_func && n.is_none() {
                *s = Stmt::Leaf { k: 1, s: 0 };
            }
        }
        Stmt::AndOr { first, rest } => {
            norm(first, loop_depth, in_func);
            for (_, r) in rest {
                norm(r, loop_depth, in_func);
            }
        }
        Stmt::Not(i) | Stmt::Eval(i) => norm(i, loop_depth, in_func),
        Stmt::If { cond, then, elifs, els } => {
            norm_list(cond, loop_depth, in_func);
            norm_list(then, loop_depth, in_func);
            for (c, b) in elifs {
                norm_list(c, loop_depth, in_func);
                norm_list(b, loop_depth, in_func);
            }
            if let Some(e) = els {
                norm_list(e, loop_depth, in_func);
            }
        }
        Stmt::While { extra, body, .. } => {
            if let Some((_, e)) = extra {
                norm(e, loop_depth + 1, in_func);
            }
            norm_list(body, loop_depth + 1, in_func);
        }
        Stmt::For { body, .. } | Stmt::ArithFor { body, .. } => norm_list(body, loop_depth + 1, in_func),
        Stmt::Case { items, .. } => {
            for (_, b, _) in items {
                norm_list(b, loop_depth, in_func);
            }
        }
        Stmt::Brace(l) => norm_list(l, loop_depth, in_func),
        Stmt::Subshell(l) | Stmt::SubstAssign(l) | Stmt::SubstArg(l) => norm_list(l, 0, in_func),
        Stmt::Pipe(st) => norm_list(st, 0, in_func),
        _ => {}
    }
}

impl Prog {
    pub fn normalize(&mut self) {
        for f in self.funcs.iter_mut() {
            norm_list(f, 0, true);
        }
        norm_list(&mut self.main, 0, false);
    }
}

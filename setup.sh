#!/bin/bash
# MANIFEST.setup_cmd: cold build of everything, offline, from files on disk only.
cd "$(dirname "$0")" || exit 1
export CARGO_NET_OFFLINE=true
set -e
mkdir -p target
(cd "${BVERIF_REPO:-/repo}" && CARGO_TARGET_DIR=/verif/target/repo cargo build -p brush-shell --features verif-hooks --offline)
cargo build -p bvengine -p bvhelpers
cargo build -p bvinproc
mkdir -p target/harness/helpers-bin
for h in argdump fdprobe fdlist gen sink slow job fdcount marker childenv; do cp -u target/harness/debug/$h target/harness/helpers-bin/$h; done
echo "setup done"

// childenv NAME…: prints NAME=<value> or "NAME: unset" for each name, from this process's environment
use std::io::Write;
use std::os::unix::ffi::OsStrExt;
fn main() {
    let out = std::io::stdout();
    let mut o = out.lock();
    for n in std::env::args().skip(1) {
        match std::env::var_os(&n) {
            Some(v) => {
                let _ = write!(o, "env {n}=");
                let _ = o.write_all(v.as_bytes());
                let _ = o.write_all(b"\n");
            }
            None => {
                let _ = writeln!(o, "env {n}: unset");
            }
        }
    }
}

// fdlist: lists the descriptors 0..=19 this process inherited: "fd N -> <target>" (targets of 1 and 2,
// which the caller redirects for the dump itself, are not shown); also prints umask and RLIMIT_NOFILE /
// RLIMIT_CORE soft limits as the child sees them.
fn main() {
    for fd in 0..20 {
        match std::fs::read_link(format!("/proc/self/fd/{fd}")) {
            Ok(t) => {
                if fd == 1 || fd == 2 {
                    println!("fd {fd} open");
                } else {
                    let t = t.to_string_lossy().into_owned();
                    // pipe and socket inode numbers differ from run to run
                    let t = if let Some(i) = t.find(":[") { t[..i].to_string() } else { t };
                    println!("fd {fd} -> {t}");
                }
            }
            Err(_) => {}
        }
    }
    unsafe {
        let m = libc::umask(0);
        println!("child umask {:04o}", m);
        for (name, res) in [("nofile", libc::RLIMIT_NOFILE), ("core", libc::RLIMIT_CORE), ("fsize", libc::RLIMIT_FSIZE)] {
            let mut r = libc::rlimit { rlim_cur: 0, rlim_max: 0 };
            libc::getrlimit(res, &mut r);
            println!("child rlimit {name} {}", r.rlim_cur);
        }
    }
    if let Ok(d) = std::env::current_dir() {
        println!("child cwd {}", d.display());
    }
}

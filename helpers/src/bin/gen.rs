// gen N [seed]: N bytes of a fixed pseudo-random printable stream (lines of at most 64 chars)
use std::io::Write;
fn main() {
    let n: usize = std::env::args().nth(1).and_then(|s| s.parse().ok()).unwrap_or(0);
    let mut x: u64 = std::env::args().nth(2).and_then(|s| s.parse().ok()).unwrap_or(1) ^ 0x9E3779B97F4A7C15;
    let out = std::io::stdout();
    let mut o = std::io::BufWriter::with_capacity(1 << 16, out.lock());
    let mut col = 0;
    for i in 0..n {
        x ^= x << 13;
        x ^= x >> 7;
        x ^= x << 17;
        let last = i + 1 == n;
        let b = if col == 63 || (last && n > 1 && col > 0 && x % 2 == 0) {
            col = 0;
            b'\n'
        } else {
            col += 1;
            b'a' + (x % 26) as u8
        };
        if o.write_all(&[b]).is_err() {
            std::process::exit(141);
        }
    }
    if o.flush().is_err() {
        std::process::exit(141);
    }
}

// marker NAME: creates the file marker.NAME in the current directory
fn main() {
    let n = std::env::args().nth(1).unwrap_or_default();
    let _ = std::fs::write(format!("marker.{n}"), b"x");
}

// job K D [status]: sleep D ms, append one line to out.K, print "done K", exit status
use std::io::Write;
fn main() {
    let a: Vec<String> = std::env::args().collect();
    let k = a.get(1).cloned().unwrap_or_default();
    let d: u64 = a.get(2).and_then(|s| s.parse().ok()).unwrap_or(0);
    let st: i32 = a.get(3).and_then(|s| s.parse().ok()).unwrap_or(0);
    std::thread::sleep(std::time::Duration::from_millis(d));
    if let Ok(mut f) = std::fs::OpenOptions::new().create(true).append(true).open(format!("out.{k}")) {
        let _ = writeln!(f, "{k}");
    }
    println!("done {k}");
    std::process::exit(st);
}

// fdcount PID: number of open descriptors of PID and number of its zombie children: "fds=<n> zombies=<m>"
fn main() {
    let pid = std::env::args().nth(1).unwrap_or_else(|| "self".into());
    let fds = std::fs::read_dir(format!("/proc/{pid}/fd")).map(|d| d.count()).unwrap_or(0);
    let mut zombies = 0;
    let mut children = 0;
    if let Ok(rd) = std::fs::read_dir("/proc") {
        for e in rd.flatten() {
            let name = e.file_name().to_string_lossy().into_owned();
            if !name.chars().all(|c| c.is_ascii_digit()) {
                continue;
            }
            if let Ok(stat) = std::fs::read_to_string(format!("/proc/{name}/stat")) {
                // pid (comm) state ppid …
                if let Some(r) = stat.rfind(')') {
                    let rest: Vec<&str> = stat[r + 1..].split_whitespace().collect();
                    if rest.len() > 2 && rest[1] == pid {
                        // do not count ourselves
                        if name == std::process::id().to_string() {
                            continue;
                        }
                        children += 1;
                        if rest[0] == "Z" {
                            zombies += 1;
                        }
                    }
                }
            }
        }
    }
    println!("fds={fds} zombies={zombies} children={children}");
}

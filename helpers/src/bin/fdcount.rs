// fdcount PID [--settle]: number of open descriptors of PID and number of its zombie children:
// "fds=<n> zombies=<m> children=<k>".  With --settle the sample is repeated (10 ms apart, at most
// ~1.5 s) until three consecutive samples agree, so that work the shell finishes asynchronously
// (process-substitution tasks, reaping) is not mistaken for a leak.
fn sample(pid: &str) -> (usize, usize, usize) {
    let fds = std::fs::read_dir(format!("/proc/{pid}/fd")).map(|d| d.count()).unwrap_or(0);
    let mut zombies = 0;
    let mut children = 0;
    let me = std::process::id().to_string();
    if let Ok(rd) = std::fs::read_dir("/proc") {
        for e in rd.flatten() {
            let name = e.file_name().to_string_lossy().into_owned();
            if !name.chars().all(|c| c.is_ascii_digit()) {
                continue;
            }
            if let Ok(stat) = std::fs::read_to_string(format!("/proc/{name}/stat")) {
                // pid (comm) state ppid …
                if let Some(r) = stat.rfind(')') {
                    let rest: Vec<&str> = stat[r + 1..].split_whitespace().collect();
                    if rest.len() > 2 && rest[1] == pid {
                        // do not count ourselves
                        if name == me {
                            continue;
                        }
                        children += 1;
                        if rest[0] == "Z" {
                            zombies += 1;
                        }
                    }
                }
            }
        }
    }
    (fds, zombies, children)
}

fn main() {
    let args: Vec<String> = std::env::args().collect();
    let pid = args.get(1).cloned().unwrap_or_else(|| "self".into());
    let settle = args.iter().any(|a| a == "--settle");
    let mut cur = sample(&pid);
    if settle {
        let mut same = 0;
        for _ in 0..150 {
            std::thread::sleep(std::time::Duration::from_millis(10));
            let n = sample(&pid);
            if n == cur && n.2 == n.1 {
                // stable, and no child still running
                same += 1;
                if same >= 2 {
                    break;
                }
            } else {
                same = 0;
                cur = n;
            }
        }
    }
    println!("fds={} zombies={} children={}", cur.0, cur.1, cur.2);
}

// slow MS: copies stdin to stdout, sleeping MS milliseconds per 4 KiB block
use std::io::{Read, Write};
fn main() {
    let ms: u64 = std::env::args().nth(1).and_then(|s| s.parse().ok()).unwrap_or(1);
    let mut buf = [0u8; 4096];
    let stdin = std::io::stdin();
    let mut i = stdin.lock();
    let out = std::io::stdout();
    let mut o = out.lock();
    loop {
        match i.read(&mut buf) {
            Ok(0) => break,
            Ok(k) => {
                std::thread::sleep(std::time::Duration::from_millis(ms));
                if o.write_all(&buf[..k]).is_err() {
                    std::process::exit(141);
                }
            }
            Err(_) => break,
        }
    }
    let _ = o.flush();
}

// reads stdin to EOF; prints "len=<n> sum=<fnv1a64 hex>"
use std::io::Read;
fn main() {
    let mut h: u64 = 0xcbf29ce484222325;
    let mut n: u64 = 0;
    let mut buf = [0u8; 65536];
    let stdin = std::io::stdin();
    let mut i = stdin.lock();
    loop {
        match i.read(&mut buf) {
            Ok(0) => break,
            Ok(k) => {
                for b in &buf[..k] {
                    h ^= *b as u64;
                    h = h.wrapping_mul(0x100000001b3);
                }
                n += k as u64;
            }
            Err(_) => break,
        }
    }
    println!("len={n} sum={h:016x}");
}

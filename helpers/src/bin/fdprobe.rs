// Reports the state of descriptors 0-9 of this process into $BV_PROBE_LOG (default ./probe.log),
// then writes "W<fd>:<tag>\n" to every descriptor in 1..=9 that is open for writing.
use std::io::Write;
fn main() {
    let tag = std::env::args().nth(1).unwrap_or_else(|| "-".into());
    let mut report = String::new();
    report.push_str(&format!("[{tag}]"));
    let mut writable = vec![];
    for fd in 0..10 {
        let mut st: libc::stat = unsafe { std::mem::zeroed() };
        if unsafe { libc::fstat(fd, &mut st) } != 0 {
            report.push_str(&format!(" {fd}=closed"));
            continue;
        }
        let fl = unsafe { libc::fcntl(fd, libc::F_GETFL) };
        let acc = match fl & libc::O_ACCMODE {
            libc::O_RDONLY => "r",
            libc::O_WRONLY => "w",
            _ => "rw",
        };
        if acc != "r" && fd >= 1 {
            writable.push(fd);
        }
        let app = if fl & libc::O_APPEND != 0 { "a" } else { "" };
        let kind = st.st_mode & libc::S_IFMT;
        let link = std::fs::read_link(format!("/proc/self/fd/{fd}")).map(|p| p.to_string_lossy().into_owned()).unwrap_or_default();
        if kind == libc::S_IFREG {
            let base = link.rsplit('/').next().unwrap_or("").to_string();
            let off = unsafe { libc::lseek(fd, 0, libc::SEEK_CUR) };
            // the harness's own capture files are reported without offset (it differs between shells' diagnostics)
            if base == "stdout" || base == "stderr" {
                report.push_str(&format!(" {fd}=cap:{base}:{acc}{app}"));
            } else {
                report.push_str(&format!(" {fd}=file:{base}:{acc}{app}:{off}"));
            }
        } else if kind == libc::S_IFIFO {
            report.push_str(&format!(" {fd}=pipe:{acc}"));
        } else if kind == libc::S_IFCHR {
            let base = link.rsplit('/').next().unwrap_or("").to_string();
            report.push_str(&format!(" {fd}=chr:{base}:{acc}"));
        } else {
            report.push_str(&format!(" {fd}=other:{acc}"));
        }
    }
    report.push('\n');
    let path = std::env::var("BV_PROBE_LOG").unwrap_or_else(|_| "probe.log".into());
    if let Ok(mut f) = std::fs::OpenOptions::new().create(true).append(true).open(&path) {
        let _ = f.write_all(report.as_bytes());
    }
    for fd in writable {
        let line = format!("W{fd}:{tag}\n");
        unsafe {
            libc::write(fd, line.as_ptr() as *const libc::c_void, line.len());
        }
    }
}

// prints argc, then every argument length-prefixed: "<len>:<bytes>\n"
use std::io::Write;
use std::os::unix::ffi::OsStrExt;
fn main() {
    let args: Vec<_> = std::env::args_os().skip(1).collect();
    let out = std::io::stdout();
    let mut o = out.lock();
    let _ = writeln!(o, "argc={}", args.len());
    for a in args {
        let b = a.as_bytes();
        let _ = write!(o, "{}:", b.len());
        let _ = o.write_all(b);
        let _ = o.write_all(b"\n");
    }
}
